"""C12 system event triggers: all trigger sets / removals / Deferred firing orders within the bound on a real
ReactorBase (addSystemEventTrigger / removeSystemEventTrigger / fireSystemEvent), lock-step reference."""
import itertools

from mc.choice import Chooser, explore
from mc.runner import Stats

ID = "C12"
LEVEL = "exploration"
LEVEL_TEXT = ("bounded-exhaustive: all trigger sets up to n, all behaviours and all Deferred firing orders are executed on a real "
              "ReactorBase; removals/duplicate registrations are enumerated up to B per execution; nothing is sampled")
LEVEL_NOTE = "the reactor is never run (no I/O, no threads); the logging failure handler and Deferred/DeferredList are trusted"
TECHNIQUE = "stateless exhaustive enumeration (mc.choice), removals deviation-bounded, lock-step list reference"
RULE = ("for n <= N triggers: every phase assignment (before/during/after)^n x every behaviour per trigger {return None, raise, "
        "return unfired Deferred, and for before-triggers also return an already-fired / already-failed Deferred} x every "
        "order and outcome (ok/failed) of firing the Deferreds returned by before-triggers [all enumerated completely]; "
        "combined with <= B removal/duplication decisions: remove trigger j before firing, from inside any running trigger "
        "(later, earlier-and-already-run before-trigger, or itself for before-triggers), or between two Deferred firings; "
        "the not-yet-completed Deferred of a before-trigger is a DeferredList([d]) / an instance of a user subclass of Deferred "
        "/ already fired but chained to an unfired inner Deferred / already fired while pause()d by its owner; "
        "register trigger i as an identical duplicate (same callable, args, kwargs) of an earlier one; a running during/after "
        "trigger registers a new trigger for its own phase or a later phase; fire the event again while waiting. All triggers share one "
        "callable and differ by args or kwargs. non-trivial = distinct (phases, behaviours, removals, firing order) with a "
        "removal, a raising trigger or a Deferred-returning before-trigger")
BOUNDS = {"quick": "n<=3 with B=2, n=4 with B=1", "thorough": "n<=3 with B=3, n=4 with B=2, n=5 with B=1"}
ASSUMPTIONS = [
    "triggers are registered before the event is fired, or by a running during/after trigger for its own or a later phase: "
    "such a trigger is a remaining trigger of this firing and, by registration order, runs after every trigger registered "
    "for that phase before it. Registration for a phase that has already finished, registration by before-triggers, and what "
    "a second firing runs are not constrained (after a re-fire only 'at most once' and 'removed stays removed' are judged)",
    "a removal targets only a trigger that has not run yet, or (while before-triggers are running / their Deferreds are "
    "awaited) a before-trigger that already ran; the latter must not disturb anything",
    "nothing else runs on the reactor, so 'after every Deferred has fired' is checked as: no during/after trigger has run "
    "while a before-Deferred is unfired, and all of them have run by the time the last Deferred firing returns",
]
MIN = {"quick": {"evaluations": 620000, "nontrivial": 620000, "outcomes": 20},
       "thorough": {"evaluations": 13600000, "nontrivial": 13600000, "outcomes": 19}}

PHASES = ("before", "during", "after")
KINDS = {"before": ("none", "raise", "defer", "fired", "failed"), "during": ("none", "raise", "defer"),
         "after": ("none", "raise", "defer")}
TIERS = {"quick": {1: 2, 2: 2, 3: 2, 4: 1}, "thorough": {1: 3, 2: 3, 3: 3, 4: 2, 5: 1}}
DUP_SIG = "SystemEvent:removal-conflates-identical-duplicate-registrations"


class Runaway(BaseException):
    pass


class Boom(Exception):
    pass


_quiet = False


def quiet():
    global _quiet
    if _quiet:
        return
    _quiet = True
    import warnings
    from twisted.logger import globalLogBeginner
    globalLogBeginner.beginLoggingTo([lambda e: None], redirectStandardIO=False, discardBuffer=True)
    warnings.filterwarnings("ignore", category=DeprecationWarning)


_R = None


def reactor_class():
    global _R
    if _R is None:
        from twisted.internet.base import ReactorBase

        class R(ReactorBase):
            def installWaker(self):
                pass
        _R = R
    return _R


_SUB = None


def sub_deferred_class():
    global _SUB
    if _SUB is None:
        from twisted.internet.defer import Deferred

        class UserDeferred(Deferred):
            pass
        _SUB = UserDeferred
    return _SUB


class Unpause:
    """Stands for a Deferred that has a result but was pause()d by its owner; completing it = unpause()."""

    def __init__(self, d):
        self.d = d

    def callback(self, r):
        self.d.unpause()

    def errback(self, e):
        self.d.unpause()      # it already has its (successful) result

    def addErrback(self, f):
        pass


class Reg:
    __slots__ = ("i", "phase", "kind", "token", "handle", "alive", "ran", "dup_of")


class H:
    def __init__(self, ch, phases):
        self.ch = ch
        self.phases = phases
        self.regs = []
        self.log = []            # tokens in the order run
        self.bad = []
        self.outstanding = []    # unfired Deferreds returned by before-triggers
        self.firing = False
        self.dup_removal = False
        self.refired = False
        self.flags = set()
        self.removals = []
        self.raised = False
        self.reactor = reactor_class()()

    def flag(self, sig, detail):
        if self.refired and sig not in ("SystemEvent:trigger-ran-more-than-once", "SystemEvent:removed-trigger-ran"):
            # the statement speaks about one firing; when the event is fired again while the
            # first firing still waits, only "at most once" and "removed triggers stay removed" are judged
            return
        if self.dup_removal:
            sig = DUP_SIG
        if not any(s == sig for s, _ in self.bad):
            self.bad.append((sig, detail))

    # -- reference model --------------------------------------------------
    def next_expected(self):
        for ph in PHASES:
            for r in self.regs:
                if r.phase == ph and r.alive and not r.ran:
                    return r
            if ph == "before" and self.outstanding:
                return None
        return None

    def describe(self):
        return {"registered": [(r.phase, r.kind, r.token, "alive" if r.alive else "removed") for r in self.regs],
                "removals": self.removals, "ran": list(self.log)}

    # -- the shared trigger callable -------------------------------------
    def trig(self, *a, **kw):
        from twisted.internet import defer
        token = a[0] if a else kw["token"]
        self.ncalls = getattr(self, "ncalls", 0) + 1
        if self.ncalls > 60:
            # runaway firing (only possible when triggers run again and again): unwind the whole execution
            raise Runaway()
        exp = self.next_expected()
        if exp is not None and exp.token == token:
            r = exp
        else:
            same = [x for x in self.regs if x.token == token]
            r = next((x for x in same if x.alive and not x.ran), None) or next((x for x in same if not x.ran), None) or same[0]
            if r.ran:
                self.flag("SystemEvent:trigger-ran-more-than-once", self.describe())
            elif not r.alive:
                self.flag("SystemEvent:removed-trigger-ran", self.describe())
            elif r.phase != "before" and self.outstanding:
                self.flag("SystemEvent:%s-trigger-ran-before-all-before-deferreds-fired" % r.phase, self.describe())
            elif exp is not None and exp.phase == r.phase:
                self.flag("SystemEvent:registration-order-violated-in-%s-phase" % r.phase, self.describe())
            else:
                self.flag("SystemEvent:phase-order-violated-%s-ran-while-%s-pending" % (r.phase, exp.phase if exp else "nothing"),
                          self.describe())
        r.ran += 1
        self.log.append(token)
        # removal from inside the running trigger (deviation)
        cands = [x for x in self.regs if x.alive and (not x.ran or (r.phase == "before" and x.phase == "before"))
                 and not (x is r and r.phase != "before")]
        c = self.ch.choose(1 + len(cands), "remove-from-inside-%d" % r.i)
        if c:
            self.remove(cands[c - 1], "inside-%s-trigger" % r.phase)
        # registration from inside a running during/after trigger (deviation): a new trigger for the phase being
        # fired or for a later phase.  It is a remaining trigger of this firing and, by registration order, comes
        # after every trigger registered for that phase before it.
        if r.phase != "before":
            later = PHASES[PHASES.index(r.phase):]
            c = self.ch.choose(1 + len(later), "register-from-inside-%d" % r.i)
            if c:
                n = Reg()
                n.i, n.phase, n.alive, n.ran, n.dup_of = len(self.regs), later[c - 1], True, 0, None
                n.token, n.kind = n.i, "none"
                self.regs.append(n)
                self.flags.add("registered-%s-trigger-from-inside-%s-trigger" % (n.phase, r.phase))
                if n.token % 2:
                    n.handle = self.reactor.addSystemEventTrigger(n.phase, "custom", self.trig, token=n.token)
                else:
                    n.handle = self.reactor.addSystemEventTrigger(n.phase, "custom", self.trig, n.token)
        if r.kind == "raise":
            self.raised = True
            raise Boom("trigger %d" % r.i)
        if r.kind == "none":
            return None
        if r.kind == "fired":
            return defer.succeed(None)
        if r.kind == "failed":
            d = defer.fail(Boom("failed"))
            self.consume = getattr(self, "consume", [])
            self.consume.append(d)
            return d
        if r.kind in ("dlist", "subdefer"):
            # Deferred *subclass* instances: an unfired DeferredList([d]) aggregate (what gatherResults / MultiService.stopService
            # hand back) or a user subclass; the harness later fires the underlying Deferred
            d = defer.Deferred() if r.kind == "dlist" else sub_deferred_class()()
            self.outstanding.append(d)
            self.flags.add("before-returned-" + r.kind)
            return defer.DeferredList([d]) if r.kind == "dlist" else d
        if r.kind == "chained":
            # already fired, but its chain is suspended on an unfired inner Deferred which the harness fires later
            inner = defer.Deferred()
            d = defer.succeed(None)
            d.addCallback(lambda _, inner=inner: inner)
            self.outstanding.append(inner)
            self.consume = getattr(self, "consume", [])
            self.consume.append(d)
            self.flags.add("before-returned-chained")
            return d
        if r.kind == "pausedfired":
            # fired while pause()d by its owner: "firing" it later means the owner unpauses it
            d = defer.Deferred()
            d.pause()
            d.callback(None)
            self.outstanding.append(Unpause(d))
            self.flags.add("before-returned-pausedfired")
            return d
        d = defer.Deferred()
        if r.phase == "before":
            self.outstanding.append(d)
        return d

    def remove(self, x, where):
        if any(y is not x and y.token == x.token for y in self.regs):
            self.dup_removal = True
            self.flags.add("duplicate-removed")
        already = bool(x.ran)
        self.removals.append((x.i, where, "already-ran" if already else "not-yet-run"))
        self.flags.add("removed-" + where + ("-already-ran" if already else ""))
        if not already:
            x.alive = False
        try:
            self.reactor.removeSystemEventTrigger(x.handle)
        except (ValueError, KeyError, TypeError) as e:
            if already:
                # Twisted announces that removing an already-fired trigger will raise in a future version: not constrained
                return
            self.flag("SystemEvent:removeSystemEventTrigger-raised-%s-%s" % (type(e).__name__, where), self.describe())

    # -- driver ----------------------------------------------------------
    def run(self):
        ch = self.ch
        reactor = self.reactor
        for i, ph in enumerate(self.phases):
            r = Reg()
            r.i, r.phase, r.alive, r.ran, r.dup_of = i, ph, True, 0, None
            earlier = [x for x in self.regs if x.phase == ph and x.dup_of is None]
            c = ch.choose(1 + len(earlier), "duplicate-of") if earlier else 0
            if c:
                o = earlier[c - 1]
                r.dup_of, r.token, r.kind = o.i, o.token, o.kind
                self.flags.add("duplicate")
            else:
                r.token = i
                r.kind = ch.pick(KINDS[ph], "kind-%d" % i, free=True)
                if ph == "before" and r.kind == "defer":
                    # (deviation) the not-yet-completed Deferred is a Deferred subclass instance / fired but suspended
                    r.kind = ("defer", "dlist", "subdefer", "chained", "pausedfired")[ch.choose(5, "deferred-class-%d" % i)]
            if r.token % 2:
                r.handle = reactor.addSystemEventTrigger(ph, "custom", self.trig, token=r.token)
            else:
                r.handle = reactor.addSystemEventTrigger(ph, "custom", self.trig, r.token)
            self.regs.append(r)
        for r in list(self.regs):
            if ch.choose(2, "remove-before-fire-%d" % r.i):
                self.remove(r, "before-fire")
        try:
            self.firing = True
            reactor.fireSystemEvent("custom")
            for d in getattr(self, "consume", []):
                d.addErrback(lambda f: None)
            nfired = 0
            while self.outstanding:
                cands = [x for x in self.regs if x.alive and (not x.ran or x.phase == "before")]
                c = ch.choose(1 + len(cands), "remove-while-waiting")
                if c:
                    self.remove(cands[c - 1], "while-waiting")
                if not self.refired and ch.choose(2, "fire-again-while-waiting"):
                    self.refired = True
                    self.flags.add("fired-again-while-waiting")
                    reactor.fireSystemEvent("custom")
                d = self.outstanding[ch.choose(len(self.outstanding), "which-deferred", free=True)]
                ok = ch.choose(2, "deferred-outcome", free=True) == 0
                self.outstanding.remove(d)
                nfired += 1
                if self.outstanding:
                    self.flags.add("partial-deferreds-fired")
                if ok:
                    d.callback(None)
                else:
                    self.flags.add("before-deferred-failed")
                    d.errback(Boom("later"))
                    d.addErrback(lambda f: None)
            if nfired:
                self.flags.add("waited-for-deferreds")
        except Boom as e:
            self.flag("SystemEvent:trigger-exception-propagated-to-caller", self.describe())
        except Runaway:
            self.refired = False
            self.flag("SystemEvent:trigger-ran-more-than-once", self.describe())
            return self
        missing = [r for r in self.regs if r.alive and not r.ran]
        if missing and not self.refired and not any(s.startswith("SystemEvent:trigger-exception") for s, _ in self.bad):
            kind = "after-another-trigger-raised" if self.raised else "although-none-raised"
            self.flag("SystemEvent:remaining-%s-trigger-not-run-%s" % (missing[0].phase, kind), self.describe())
        if self.raised:
            self.flags.add("trigger-raised")
        return self


def make_run(phases):
    def run(ch):
        return H(ch, phases).run()
    return run


def shards(tier, seed):
    out = []
    for n, b in TIERS[tier].items():
        for phases in itertools.product(range(3), repeat=n):
            out.append([list(phases), b])
    out.sort(key=lambda s: -len(s[0]))
    return out


def run_shard(shard, tier, seed):
    quiet()
    phases = tuple(PHASES[p] for p in shard[0])
    bound = shard[1]
    st = Stats()
    nbad = 0
    for ch, h in explore(make_run(phases), bound=bound):
        st.evaluations += 1
        kinds = tuple(r.kind for r in h.regs)
        for fl in h.flags:
            st.outcome(fl)
        st.outcome("ran-%d-of-%d" % (min(len(h.log), 3), min(len(h.regs), 3)))
        if h.flags:
            st.nt((phases, tuple(ch.choices)))
        if h.bad:
            for sig, detail in h.bad:
                st.violation(sig, detail, {"phases": list(shard[0]), "choices": ch.choices})
            nbad += 1
            if nbad >= 2000 and not all(sig == DUP_SIG for sig, _ in h.bad):
                # a broken tree can blow the execution tree up (triggers that run again create new
                # choice points); everything needed is already recorded
                st.exhaustive = False
                st.notes.append("C12: shard cut after 2000 violating executions")
                break
        elif st.evaluations % 20011 == 1:
            st.sample({"phases": phases, "kinds": kinds, "removals": h.removals, "ran": h.log})
    return st


def replay(w):
    quiet()
    phases = tuple(PHASES[p] for p in w["phases"])
    h = make_run(phases)(Chooser(w["choices"]))
    return list(h.bad)
