"""C37 SSH wire primitives (NS/getNS, MP/getMP) and Key.toString/fromString round trips.

Exhaustive enumeration of a declared value space for NS/MP, and of a fixed,
deterministically derived key pool x every serialisation format that supports the
key's type x passphrase/comment choice x parse mode (type guessed / type given).
The oracle is independent of the code under test: the harness knows the numbers
every pool key was built from.
"""
import math
import warnings

from mc.runner import Stats

warnings.filterwarnings("ignore")

ID = "C37"
LEVEL = "exploration"
TECHNIQUE = "bounded exhaustive enumeration (values; keys x formats x passphrase x parse mode)"
RULE = ("NS/getNS: every byte string of length <= 2 (65 793 values), lengths 255/256/65535/65536/2^20+1, and every "
        "pair/tail concatenation from a boundary set decoded with count=2, every str of length <= 3 over 11 characters of UTF-8 "
        "width 1-4 (expected decode = its UTF-8 bytes) alone and followed by a second field; MP/getMP: every integer 0..69999, 2^k-1, 2^k, "
        "2^k+1 for every k <= 4096, and pair/tail concatenations. Keys: a deterministic pool (RSA with p<q, p>q, e in "
        "{3|5|17, 65537}, modulus bit length = 0,1,7 mod 8; DSA with x=1, y with/without leading zero byte; ECDSA "
        "P-256/384/521 with private value 1, 2, 2^(bits-1)-3, first value whose x resp. y coordinate has a leading zero byte, the "
        "keydata key; Ed25519 from 4 fixed seeds and one whose public bytes end in a whitespace byte), public and private, x every format that supports the type (openssh "
        "public +- comment, openssh PEM, openssh v1 +- comment of every padding length, default subtype, lsh, agentv3, "
        "blob, private blob) x passphrase in {None, b'', bytes, unicode needing NFKC} x parse mode {guess, explicit type, "
        "str input}. Oracle: parsed == original (both directions), same isPublic, same MD5 and SHA256 fingerprints, and "
        "parsed.data() equals the numbers the harness built the key from. non-trivial = distinct serialised text (keys) "
        "/ value whose encoding needs a sign pad, is zero, or has a length field >= 256 (NS/MP)")
BOUNDS = {
    "quick": "all NS/MP values as in RULE; 64 pool keys x all formats; encrypted v1 (bcrypt kdf, 0.8 CPU-s per call) for one "
             "key per type (RSA, DSA, EC256/384/521, Ed25519) x both passphrases, type guessed",
    "thorough": "same plus every passphrase x every private key for v1, both parse modes",
}
ASSUMPTIONS = [
    "cryptography's key objects and serialisers (PEM, OpenSSH public EC) are trusted; the pool is fixed, not sampled",
    "MP is defined for non-negative integers only (the implementation asserts number > 0 for non-zero) - negatives are outside the statement's domain",
    "randbytes.secureRandom is rebound to a deterministic generator (salt/check bytes of the v1 format)",
    "formats considered to support a type: openssh public: all; openssh private PEM: RSA, DSA, EC; openssh private v1: all; "
    "lsh public/private: RSA, DSA; agentv3: private RSA, DSA; blob/private blob: all (as documented in keys.py docstrings)",
]
MIN = {"quick": {"evaluations": 105000, "nontrivial": 24000, "outcomes": 45},
       "thorough": {"evaluations": 105000, "nontrivial": 24000, "outcomes": 45}}

# ----------------------------------------------------------------------------
# deterministic number theory for the pool


def _isprime(n):
    if n < 2:
        return False
    small = (2, 3, 5, 7, 11, 13, 17, 19, 23, 29, 31, 37)
    for p in small:
        if n % p == 0:
            return n == p
    d, s = n - 1, 0
    while d % 2 == 0:
        d //= 2
        s += 1
    for a in small + (41, 43, 47, 53):
        x = pow(a, d, n)
        if x in (1, n - 1):
            continue
        for _ in range(s - 1):
            x = x * x % n
            if x == n - 1:
                break
        else:
            return False
    return True


def _nextprime(n):
    n |= 1
    while not _isprime(n):
        n += 2
    return n


def _rsa_numbers(p, q, e):
    lam = math.lcm(p - 1, q - 1)
    d = pow(e, -1, lam)
    return {"n": p * q, "e": e, "d": d, "p": p, "q": q}


def _pick_e(p, q, prefer):
    lam = math.lcm(p - 1, q - 1)
    for e in prefer:
        if math.gcd(e, lam) == 1:
            return e
    raise RuntimeError("no exponent")


# key ids: (kind, variant, public?)
RSA_VARIANTS = ["kd-p<q-e17", "kd-p>q-e17", "kd-p<q-e65537", "n1023-p>q", "n1024-p<q", "n1017-p>q-esmall"]
DSA_VARIANTS = ["kd", "x1", "y-leading-zero", "y-high-bit"]
EC_VARIANTS = ["kd", "v1", "v2", "big", "x-leading-zero", "y-leading-zero"]
EC_CURVES = ["256", "384", "521"]
ED_VARIANTS = ["kd", "zeros", "ff", "range", "a-ends-whitespace"]


def key_ids():
    out = []
    for v in RSA_VARIANTS:
        out.append(("RSA", v))
    for v in DSA_VARIANTS:
        out.append(("DSA", v))
    for c in EC_CURVES:
        for v in EC_VARIANTS:
            out.append(("EC" + c, v))
    for v in ED_VARIANTS:
        out.append(("Ed25519", v))
    return out


_pool_cache = {}


def build_key(kind, variant):
    """-> (private cryptography key object, ref dict of numbers, shape tag)."""
    ck = (kind, variant)
    if ck in _pool_cache:
        return _pool_cache[ck]
    from cryptography.hazmat.primitives.asymmetric import dsa, ec, ed25519, rsa
    from twisted.conch.test import keydata
    if kind == "RSA":
        kd = keydata.RSAData
        if variant.startswith("kd"):
            p, q = sorted((kd["p"], kd["q"]))
            if "p>q" in variant:
                p, q = q, p
            e = 17 if "e17" in variant else 65537
        elif variant == "n1023-p>q":
            p = _nextprime((0b11 << 510) + 12345)
            q = _nextprime((0b10 << 510) + 99999)
            assert p > q and (p * q).bit_length() == 1023
            e = 65537
        elif variant == "n1024-p<q":
            p = _nextprime((0b11 << 510) + 424243)
            q = _nextprime((0b111 << 509) + 777)
            assert p < q and (p * q).bit_length() == 1024
            e = 65537
        else:
            q = _nextprime((1 << 508) + 31337)
            p = _nextprime((1 << 508) + (1 << 300))
            assert p > q and (p * q).bit_length() == 1017, (p * q).bit_length()
            e = _pick_e(p, q, (3, 5, 7, 11, 13, 17))
        ref = _rsa_numbers(p, q, e)
        obj = rsa.RSAPrivateNumbers(
            p=p, q=q, d=ref["d"], dmp1=ref["d"] % (p - 1), dmq1=ref["d"] % (q - 1), iqmp=pow(q, -1, p),
            public_numbers=rsa.RSAPublicNumbers(e, p * q)).private_key()
        shape = "RSA(p>q)" if p > q else "RSA(p<q)"
    elif kind == "DSA":
        kd = keydata.DSAData
        p, q, g = kd["p"], kd["q"], kd["g"]
        if variant == "kd":
            x = kd["x"]
        elif variant == "x1":
            x = 1
        elif variant == "y-leading-zero":
            x = next(x for x in range(2, 100000) if pow(g, x, p).bit_length() <= p.bit_length() - 8)
        else:
            x = next(x for x in range(2, 100000) if pow(g, x, p).bit_length() == p.bit_length())
        y = pow(g, x, p)
        ref = {"p": p, "q": q, "g": g, "y": y, "x": x}
        obj = dsa.DSAPrivateNumbers(x, dsa.DSAPublicNumbers(y, dsa.DSAParameterNumbers(p, q, g))).private_key()
        shape = "DSA"
    elif kind.startswith("EC"):
        bits = kind[2:]
        curve = {"256": ec.SECP256R1, "384": ec.SECP384R1, "521": ec.SECP521R1}[bits]()
        big = (1 << (int(bits) - 1)) - 3      # < group order on all three curves, top bits set
        byte_bits = 8 * ((int(bits) + 7) // 8)

        def pub(v):
            return ec.derive_private_key(v, curve).public_key().public_numbers()
        if variant == "kd":
            v = {"256": keydata.ECDatanistp256, "384": keydata.ECDatanistp384,
                 "521": keydata.ECDatanistp521}[bits]["privateValue"]
        elif variant == "v1":
            v = 1
        elif variant == "v2":
            v = 2
        elif variant == "big":
            v = big
        elif variant == "x-leading-zero":
            v = next(v for v in range(3, 100000) if pub(v).x.bit_length() <= byte_bits - 8)
        else:
            v = next(v for v in range(3, 100000) if pub(v).y.bit_length() <= byte_bits - 8)
        obj = ec.derive_private_key(v, curve)
        pn = obj.public_key().public_numbers()
        ref = {"x": pn.x, "y": pn.y, "privateValue": v, "curve": b"ecdsa-sha2-nistp" + bits.encode()}
        shape = "EC" + bits
    else:
        from cryptography.hazmat.primitives import serialization as _ser
        if variant == "a-ends-whitespace":
            # public bytes (hence blob, private blob) end with an ASCII whitespace byte, begin with a non-whitespace one
            for i in range(1, 100000):
                seed = i.to_bytes(32, "big")
                a_ = ed25519.Ed25519PrivateKey.from_private_bytes(seed).public_key().public_bytes(
                    _ser.Encoding.Raw, _ser.PublicFormat.Raw)
                if a_[-1:] in b" \t\n\r\x0b\x0c":
                    break
        else:
            seed = {"kd": keydata.Ed25519Data["k"], "zeros": b"\0" * 32, "ff": b"\xff" * 32,
                    "range": bytes(range(32))}[variant]
        obj = ed25519.Ed25519PrivateKey.from_private_bytes(seed)
        from cryptography.hazmat.primitives import serialization
        a = obj.public_key().public_bytes(serialization.Encoding.Raw, serialization.PublicFormat.Raw)
        ref = {"a": a, "k": seed}
        shape = "Ed25519"
    _pool_cache[ck] = (obj, ref, shape)
    return _pool_cache[ck]


PUBLIC_FIELDS = {"RSA": ("n", "e"), "DSA": ("p", "q", "g", "y"), "EC": ("x", "y", "curve"), "Ed25519": ("a",)}

PASSPHRASES = [None, b"", b"secret phrase", "pässﬁⅨ"]   # last: NFKC changes it (fi ligature, roman IX)
PASS_NAMES = ["none", "empty", "bytes", "unicode-nfkc"]
COMMENTS_V1 = [None] + [b"c" * n for n in range(1, 17)]


def family(kind):
    return "EC" if kind.startswith("EC") else kind


def format_variants(kind, public, tier, rep):
    """All (fmt descriptor) tuples for this key.  rep: representative key of its type (gets every passphrase)."""
    fam = family(kind)
    out = []
    if public:
        for c in (None, b"", b"user@host", b"two words here"):
            out.append(("openssh-public", c))
        if fam in ("RSA", "DSA"):
            out.append(("lsh-public",))
        out.append(("blob",))
        return out
    # private
    for pi in range(len(PASSPHRASES)):
        if fam != "Ed25519":
            out.append(("openssh-pem", pi))
            out.append(("openssh-default", pi))
        else:
            if pi < 2:
                out.append(("openssh-default", pi))
        # v1: encrypted variants are expensive (bcrypt kdf ~0.8 CPU-s per call, twice per evaluation) and the cipher
        # layer does not depend on the key (the unencrypted v1 cases cover every key's private blob): quick runs them
        # for one representative key per type only
        if pi < 2:
            for ci in range(len(COMMENTS_V1)):
                if pi == 0 or ci in (0, 5):
                    out.append(("openssh-v1", pi, ci))
        elif tier == "thorough" or rep:
            out.append(("openssh-v1", pi, 0))
            if tier == "thorough" or pi == 2:
                out.append(("openssh-v1", pi, 3))
    if fam in ("RSA", "DSA"):
        out.append(("lsh-private",))
        out.append(("agentv3",))
    out.append(("private-blob",))
    return out


def serialise(key, fmt):
    """-> (data, passphrase used for parsing, explicit parse type, guessable)."""
    name = fmt[0]
    if name == "openssh-public":
        return key.toString("openssh", comment=fmt[1]), None, "public_openssh", True
    if name == "lsh-public":
        return key.toString("lsh"), None, "public_lsh", True
    if name == "blob":
        return key.blob(), None, "blob", True
    if name == "openssh-pem":
        pw = PASSPHRASES[fmt[1]]
        return key.toString("openssh", subtype="PEM", passphrase=pw), pw, "private_openssh", True
    if name == "openssh-default":
        pw = PASSPHRASES[fmt[1]]
        return key.toString("openssh", passphrase=pw), pw, "private_openssh", True
    if name == "openssh-v1":
        pw = PASSPHRASES[fmt[1]]
        return (key.toString("openssh", subtype="v1", passphrase=pw, comment=COMMENTS_V1[fmt[2]]), pw,
                "private_openssh", True)
    if name == "lsh-private":
        return key.toString("lsh"), None, "private_lsh", True
    if name == "agentv3":
        return key.toString("agentv3"), None, "agentv3", True
    if name == "private-blob":
        # an RSA/DSA private blob is indistinguishable from agentv3 by guessing (documented formats differ only in
        # field order), so it is parsed with its explicit type only
        return key.privateBlob(), None, "private_blob", False
    raise ValueError(fmt)


def _install_random(seed):
    from twisted.python import randbytes
    ctr = [seed & 0xFF]

    def det(n):
        ctr[0] = (ctr[0] + 1) & 0xFF
        return bytes(((ctr[0] * 37 + i * 11) & 0xFF) for i in range(n))
    randbytes.secureRandom = det


def fmt_label(fmt):
    name = fmt[0]
    if name in ("openssh-pem", "openssh-default"):
        return "%s[%s]" % (name, PASS_NAMES[fmt[1]])
    if name == "openssh-v1":
        return "openssh-v1[%s]" % PASS_NAMES[fmt[1]]
    if name == "openssh-public":
        return "openssh-public"
    return name


def check_one(kind, variant, public, fmt, mode, seed=0):
    """One evaluation.  -> (list of (sig, detail), serialised bytes or None)."""
    from twisted.conch.ssh import keys
    from twisted.conch.ssh.keys import FingerprintFormats
    _install_random(seed)
    obj, ref, shape = build_key(kind, variant)
    fam = family(kind)
    key = keys.Key(obj.public_key() if public else obj)
    tag = "keys:%s:%s" % (fmt_label(fmt), shape)
    try:
        data, pw, etype, guessable = serialise(key, fmt)
    except Exception as e:  # a supported (type, format) pair must serialise
        return [("%s:serialise-raises-%s" % (tag, type(e).__name__), "%s %s: %r" % (kind, variant, e))], None
    if not isinstance(data, bytes):
        return [("%s:serialise-not-bytes" % tag, repr(data)[:80])], None
    if mode == "guess":
        if not guessable:
            return [], data
        args = (data,)
        kw = {}
    elif mode == "explicit":
        args = (data,)
        kw = {"type": etype}
    else:  # str input (textual formats only)
        try:
            args = (data.decode("ascii"),)
        except UnicodeDecodeError:
            return [], data
        kw = {}
    if pw is not None:
        kw["passphrase"] = pw
    try:
        parsed = keys.Key.fromString(*args, **kw)
    except Exception as e:
        return [("%s:parse-raises-%s" % (tag, type(e).__name__), "%s %s mode=%s: %r" % (kind, variant, mode, e))], data
    bad = []
    if not isinstance(parsed, keys.Key):
        return [("%s:parse-not-a-key" % tag, repr(parsed)[:80])], data
    if parsed.isPublic() != key.isPublic():
        bad.append(("%s:public-private-flip" % tag, "%s %s" % (kind, variant)))
    eq = (parsed == key) and (key == parsed) and not (parsed != key)
    if not eq:
        bad.append(("%s:not-equal" % tag, "%s %s mode=%s: parsed key != original" % (kind, variant, mode)))
    for ff in (FingerprintFormats.MD5_HEX, FingerprintFormats.SHA256_BASE64):
        try:
            same = parsed.fingerprint(ff) == key.fingerprint(ff)
        except Exception as e:
            bad.append(("%s:fingerprint-raises-%s" % (tag, type(e).__name__), "%s %s %s: %r" % (kind, variant, ff, e)))
            break
        if not same:
            bad.append(("%s:fingerprint-differs" % tag, "%s %s %s" % (kind, variant, ff)))
    # independent reference: the numbers the harness built the key from
    try:
        got = parsed.data()
    except Exception as e:
        got = None
        bad.append(("%s:data-raises-%s" % (tag, type(e).__name__), repr(e)))
    if got is not None and eq:
        fields = PUBLIC_FIELDS[fam] if public else tuple(ref.keys())
        for f in fields:
            if f in got and got[f] != ref[f]:
                bad.append(("%s:component-differs-from-construction" % tag, "%s %s field %s" % (kind, variant, f)))
                break
    return bad, data


# ----------------------------------------------------------------------------
# NS / MP


def ns_values_block(b0):
    """All byte strings of length <= 2 whose first byte is b0 (plus the empty string for b0 == 0)."""
    if b0 == 0:
        yield b""
    yield bytes((b0,))
    for b1 in range(256):
        yield bytes((b0, b1))


NS_LONG = [255, 256, 257, 65535, 65536, (1 << 20) + 1]
NS_PAIR = [b"", b"\x00", b"a", b"\x00\x00\x00\x01", b"\xff" * 255, b"z" * 256]
TAILS = [b"", b"\x00", b"\x00\x00\x00", b"tail\xff"]


def run_ns(shard, st, seed):
    from twisted.conch.ssh.common import NS, getNS
    lo, hi = shard[1], shard[2]

    def one(s):
        st.evaluations += 1
        enc = NS(s)
        got = getNS(enc)
        if got != (s, b""):
            st.violation("NS:roundtrip-differs:len%s" % ("<256" if len(s) < 256 else ">=256"),
                         "NS(%r...) (len %d) decodes to %r" % (s[:8], len(s), got[0][:8]), {"part": "ns", "hex": s.hex() if len(s) < 300 else "", "len": len(s), "seed": seed})
            st.outcome("ns-bad")
        else:
            st.outcome("ns-ok")
        if len(s) >= 256 or s[:1] in (b"\x00", b"\xff") or len(s) == 0:
            st.nt(("ns", s if len(s) < 40 else len(s)))

    for b0 in range(lo, hi):
        for s in ns_values_block(b0):
            one(s)
    if lo == 32:
        for t in str_values():
            for second in (b"", b"xy"):
                st.evaluations += 1
                bad = check_ns_str(t, second, b"\x00tail")
                for sig, detail in bad:
                    st.violation(sig, detail, {"part": "nsstr", "t": [ord(c) for c in t], "second": second.hex()})
                st.outcome("ns-str-%s-%s" % (str_class(t), "bad" if bad else "ok"))
                if str_class(t) != "ascii":
                    st.nt(("nsstr", t, second))
    if lo == 0:
        fill = bytes(((seed * 7 + i) & 0xFF) for i in range(256))
        for n in NS_LONG:
            one((fill * (n // 256 + 1))[:n])
        for a in NS_PAIR:
            for b in NS_PAIR:
                for t in TAILS:
                    st.evaluations += 1
                    got = getNS(NS(a) + NS(b) + t, 2)
                    if got != (a, b, t):
                        st.violation("NS:count2-differs", "a=%d b=%d tail=%r -> %r" % (len(a), len(b), t, [x[:6] for x in got]),
                                     {"part": "ns2", "a": a.hex(), "b": b.hex(), "t": t.hex()})
                    st.nt(("ns2", a, b, t))
                    st.outcome("ns-pair")


STR_CHARS = ["a", "\x00", "\x7f", "\u0080", "\u00e9", "\u07ff", "\u0800", "\u20ac", "\uffff", "\U00010000", "\U0001F600"]


def str_values():
    """Every str of length <= 3 over 1-, 2-, 3- and 4-byte UTF-8 characters (incl. the first/last code point of each width)."""
    import itertools
    for n in range(0, 4):
        for t in itertools.product(STR_CHARS, repeat=n):
            yield "".join(t)


def str_class(t):
    w = sorted(set(len(c.encode("utf-8")) for c in t))
    return "ascii" if w in ([], [1]) else "non-ascii"


def check_ns_str(t, second, tail):
    """NS() accepts str and documents UTF-8 encoding: the decoded value is the UTF-8 bytes, following fields stay in sync."""
    from twisted.conch.ssh.common import NS, getNS
    want = t.encode("utf-8")
    enc = NS(t)
    got1 = getNS(enc)
    got2 = getNS(enc + NS(second) + tail, 2)
    bad = []
    if got1 != (want, b""):
        bad.append(("NS:str-roundtrip-differs:%s" % str_class(t), "NS(%r) decodes to %r, UTF-8 is %r" % (t, got1, want)))
    if got2 != (want, second, tail):
        bad.append(("NS:str-following-field-desynchronised:%s" % str_class(t),
                    "NS(%r)+NS(%r)+%r decodes to %r" % (t, second, tail, got2)))
    return bad


def mp_values(shard):
    kind = shard[1]
    if kind == "range":
        for n in range(shard[2], shard[3]):
            yield n
    else:
        for k in range(shard[2], shard[3]):
            for d in (-1, 0, 1):
                v = (1 << k) + d
                if v >= 0:
                    yield v


MP_PAIR = [0, 1, 127, 128, 255, 256, (1 << 31) - 1, 1 << 31, (1 << 32) - 1, 1 << 64, (1 << 2047) + 5, (1 << 2048) - 1]


def run_mp(shard, st, seed):
    from twisted.conch.ssh.common import MP, getMP
    for n in mp_values(shard):
        st.evaluations += 1
        got = getMP(MP(n))
        if got != (n, b""):
            cls = "zero" if n == 0 else ("high-bit-set" if n.bit_length() % 8 == 0 else "no-pad")
            st.violation("MP:roundtrip-differs:%s" % cls, "MP(%s) (bits %d) decodes to %r" % (hex(n)[:40], n.bit_length(), str(got)[:60]),
                         {"part": "mp", "n": str(n)})
            st.outcome("mp-bad")
        else:
            st.outcome("mp-ok-pad" if n and n.bit_length() % 8 == 0 else "mp-ok")
        if n == 0 or n.bit_length() % 8 == 0 or n.bit_length() >= 2040:
            st.nt(("mp", n))
    if shard[1] == "range" and shard[2] == 0:
        for a in MP_PAIR:
            for b in MP_PAIR:
                for t in TAILS:
                    st.evaluations += 1
                    got = getMP(MP(a) + MP(b) + t, 2)
                    if got != (a, b, t):
                        st.violation("MP:count2-differs", "a=%s b=%s tail=%r" % (hex(a)[:20], hex(b)[:20], t),
                                     {"part": "mp2", "a": str(a), "b": str(b), "t": t.hex()})
                    st.nt(("mp2", a, b, t))
                    st.outcome("mp-pair")


# ----------------------------------------------------------------------------

REPRESENTATIVE = {("RSA", "kd-p<q-e17"), ("DSA", "kd"), ("EC256", "kd"), ("EC384", "v1"), ("EC521", "big"),
                  ("Ed25519", "kd")}
MODES = ["guess", "explicit", "str"]


def shards(tier, seed):
    out = []
    for i in range(8):
        out.append(["ns", i * 32, (i + 1) * 32])
    for i in range(7):
        out.append(["mp", "range", i * 10000, (i + 1) * 10000])
    for i in range(4):
        out.append(["mp", "pow", i * 1024, (i + 1) * 1024 + (1 if i == 3 else 0)])
    for kind, variant in key_ids():
        out.append(["key", kind, variant, 0])
        # private keys: split cheap formats from the bcrypt-heavy ones
        out.append(["key", kind, variant, 1])
        rep = (kind, variant) in REPRESENTATIVE
        nheavy = sum(1 for f in format_variants(kind, False, tier, rep) if f[0] == "openssh-v1" and f[1] >= 2)
        for h in range(nheavy):
            out.append(["key", kind, variant, 2 + h])
    return out


def key_work(kind, variant, part, tier):
    """part 0: public key; part 1: private key, everything but encrypted v1; part 2+h: private, h-th encrypted v1 format."""
    rep = (kind, variant) in REPRESENTATIVE
    if part == 0:
        fmts = format_variants(kind, True, tier, rep)
        public = True
    else:
        public = False
        allf = format_variants(kind, False, tier, rep)
        heavy = [f for f in allf if f[0] == "openssh-v1" and f[1] >= 2]
        fmts = [heavy[part - 2]] if part >= 2 else [f for f in allf if f not in heavy]
    for fmt in fmts:
        heavy = fmt[0] == "openssh-v1" and fmt[1] >= 2
        for mode in MODES:
            if heavy and mode != "guess" and tier != "thorough":
                continue
            yield public, fmt, mode


def run_shard(shard, tier, seed):
    st = Stats()
    if shard[0] == "ns":
        run_ns(shard, st, seed)
        return st
    if shard[0] == "mp":
        run_mp(shard, st, seed)
        return st
    _, kind, variant, part = shard
    for public, fmt, mode in key_work(kind, variant, part, tier):
        bad, data = check_one(kind, variant, public, fmt, mode, seed)
        st.evaluations += 1
        if data is not None and mode == "guess":
            # PEM encryption salts are random inside cryptography: identify the case by its descriptor instead
            st.nt((kind, variant, public, fmt))
        st.outcome("%s:%s:%s" % (family(kind), "pub" if public else "priv", fmt_label(fmt)))
        for sig, detail in bad:
            st.violation(sig, detail, {"part": "key", "kind": kind, "variant": variant, "public": public,
                                       "fmt": list(fmt), "mode": mode, "seed": seed})
        if not bad:
            st.sample({"key": [kind, variant, "public" if public else "private"], "fmt": fmt_label(fmt), "mode": mode,
                       "len": len(data or b"")}, 2)
    return st


def replay(w):
    from twisted.conch.ssh.common import MP, NS, getMP, getNS
    part = w["part"]
    if part == "key":
        fmt = tuple(w["fmt"])
        bad, _ = check_one(w["kind"], w["variant"], w["public"], fmt, w["mode"], w.get("seed", 0))
        return bad
    st = Stats()
    if part == "ns":
        s = bytes.fromhex(w["hex"])
        if len(s) != w["len"]:
            fill = bytes(((w.get("seed", 0) * 7 + i) & 0xFF) for i in range(256))
            s = (fill * (w["len"] // 256 + 1))[:w["len"]]
        got = getNS(NS(s))
        return [] if got == (s, b"") else [("NS:roundtrip-differs:len%s" % ("<256" if len(s) < 256 else ">=256"), repr(got)[:80])]
    if part == "nsstr":
        return check_ns_str("".join(chr(c) for c in w["t"]), bytes.fromhex(w["second"]), b"\x00tail")
    if part == "ns2":
        a, b, t = (bytes.fromhex(w[k]) for k in "abt")
        return [] if getNS(NS(a) + NS(b) + t, 2) == (a, b, t) else [("NS:count2-differs", "")]
    if part == "mp":
        n = int(w["n"])
        cls = "zero" if n == 0 else ("high-bit-set" if n.bit_length() % 8 == 0 else "no-pad")
        return [] if getMP(MP(n)) == (n, b"") else [("MP:roundtrip-differs:%s" % cls, "")]
    if part == "mp2":
        a, b, t = int(w["a"]), int(w["b"]), bytes.fromhex(w["t"])
        return [] if getMP(MP(a) + MP(b) + t, 2) == (a, b, t) else [("MP:count2-differs", "")]
    return []
