"""C56 flattenEvent / eventAsJSON round trips keep the formatted text.

Format strings are *constructed* from field descriptions (lookup path,
conversion, format spec) so that the harness can evaluate the same fields with
plain getattr/getitem/call/format (the reference).  A case is in scope when the
reference evaluation succeeds and formatEvent(original) equals it; then
formatEvent after flattenEvent, after eventAsJSON/eventFromJSON, and after
flatten + JSON must give the same text.
"""
import itertools

from mc.runner import Stats

ID = "C56"
LEVEL = "exploration"
TECHNIQUE = "exhaustive product of constructed format fields and deterministic values, three-way differential"
RULE = ("format = literal + field (+ literal + field (+ field)); field = lookup path (18 shapes over attribute, index, "
        "key and call steps) x conversion {none,s,r,a} x format spec {none, empty, >6, *^7, 06.2f, nested >{w}}; "
        "second field = duplicate / other conversion / other spec / root / other key; leaf value from 31 deterministic "
        "values (text, numbers, containers, objects with distinct str/repr, custom __format__, subclasses of str/int/float/bytes/list/dict overriding __str__/__repr__/__format__, LogLevel, Failure, "
        "self-referential list).  In scope = reference evaluation succeeds.  "
        "non-trivial = in-scope case using a lookup step, call, conversion, non-empty spec or a repeated field")
BOUNDS = {"quick": "all single-field formats x all leaves; two-field formats with 6 second-field variants x 2 literal "
                   "sets; three-field duplicates",
          "thorough": "two-field formats with the full cross of fields over a reduced leaf set in addition"}
ASSUMPTIONS = [
    "values are deterministic and side-effect free; callables are pure",
    "a case whose reference evaluation raises is out of scope (the statement is about events whose fields exist); "
    "when formatEvent(original) itself differs from the reference the three real outputs are still compared",
    "the reference (getattr/getitem/call, str/repr/ascii, format()) is used only to scope cases and to recognise the "
    "shape of already staged defects; the verdict compares the three real outputs with each other",
]
MIN = {"quick": {"evaluations": 150000, "nontrivial": 120000, "outcomes": 4},
       "thorough": {"evaluations": 1190000, "nontrivial": 215000, "outcomes": 4}}


class Obj:
    def __init__(self, **kw):
        self.__dict__.update(kw)

    def __repr__(self):
        return "<Obj>"


class SR:
    def __str__(self):
        return "S-text"

    def __repr__(self):
        return "R-text"


class Fmt:
    def __format__(self, spec):
        return "F(%s)" % spec

    def __str__(self):
        return "Fmt-str"

    def __repr__(self):
        return "Fmt-repr"


def _sub(base, name, with_format):
    """Subclass of a builtin overriding __str__ and __repr__ (and __format__: own text for a non-empty spec,
    str(self) for the empty one, like the builtins do)."""
    ns = {"__str__": lambda self: name + "-str", "__repr__": lambda self: name + "-repr"}
    if with_format:
        ns["__format__"] = lambda self, spec: ("%s-format(%s)" % (name, spec)) if spec else str(self)
    if base is dict or base is list:
        ns["__hash__"] = None
    return type(name, (base,), ns)


StrSub = _sub(str, "StrSub", False)
StrSubF = _sub(str, "StrSubF", True)
IntSub = _sub(int, "IntSub", False)
IntSubF = _sub(int, "IntSubF", True)
FloatSub = _sub(float, "FloatSub", True)
BytesSub = _sub(bytes, "BytesSub", True)
ListSub = _sub(list, "ListSub", True)
DictSub = _sub(dict, "DictSub", True)


def _failure():
    from twisted.python.failure import Failure
    return Failure(ValueError("v"))


def _level():
    from twisted.logger import LogLevel
    return LogLevel.warn


def _circular():
    x = [1]
    x.append(x)
    return x


LEAVES = {
    "str": lambda: "xy",
    "empty": lambda: "",
    "non-ascii": lambda: "\xe9☃",
    "braces": lambda: "{z}}",
    "surrogate": lambda: "a\ud800",
    "int": lambda: 7,
    "negative": lambda: -3,
    "big-int": lambda: 2 ** 70,
    "float": lambda: 1.5,
    "nan": lambda: float("nan"),
    "none": lambda: None,
    "bool": lambda: True,
    "list": lambda: [1, "x", [2.5]],
    "dict": lambda: {"k": 1, "j": [1]},
    "tuple": lambda: (1, "\xe9"),
    "bytes": lambda: b"\xffab",
    "str-vs-repr": SR,
    "custom-format": Fmt,
    "list-of-objects": lambda: [SR(), Fmt()],
    "loglevel": _level,
    "failure": _failure,
    "self-referential-list": _circular,
    "str-subclass": lambda: StrSub("raw characters"),
    "str-subclass-format": lambda: StrSubF("raw characters"),
    "int-subclass": lambda: IntSub(41),
    "int-subclass-format": lambda: IntSubF(41),
    "float-subclass": lambda: FloatSub(2.25),
    "bytes-subclass": lambda: BytesSub(b"raw\xff"),
    "list-subclass": lambda: ListSub([1, "x"]),
    "dict-subclass": lambda: DictSub(k=1),
    "list-of-subclasses": lambda: [StrSub("raw"), IntSub(3)],
}
REDUCED_LEAVES = ["str", "non-ascii", "float", "list", "str-vs-repr", "custom-format", "str-subclass", "int-subclass-format"]

A, I, K, C = "attr", "idx", "key", "call"
PATHS = [
    (),
    ((A, "b"),),
    ((I, 0),),
    ((K, "k"),),
    ((A, "b"), (A, "c")),
    ((A, "b"), (I, 0)),
    ((I, 0), (A, "b")),
    ((K, "k"), (I, 0)),
    ((C,),),
    ((A, "b"), (C,)),
    ((I, 0), (A, "b"), (C,)),
    ((C,), (A, "b")),
    ((A, "b"), (C,), (A, "c")),
    ((C,), (I, 0)),
    ((A, "b"), (I, 0), (A, "c"), (C,)),
    ((K, "k"), (A, "b"), (C,)),
    ((I, 0), (I, 0), (A, "b"), (C,)),
    ((A, "b"), (K, "k"), (A, "c")),
]
CONVS = [None, "s", "r", "a"]
SPECS = [None, "", ">6", "*^7", "06.2f", ">{w}"]
LITS = [("", "", "", ""), ("x{{", " \xe9 ", "}}y", "|")]
W = 5


def field_text(root, path, conv, spec):
    name = root
    for step in path:
        if step[0] == A:
            name += "." + step[1]
        elif step[0] == C:
            name += "()"
        else:
            name += "[%s]" % (step[1],)
    return "{" + name + ("!" + conv if conv else "") + (":" + spec if spec is not None else "") + "}"


def wrap(path, leaf):
    v = leaf
    for step in reversed(path):
        if step[0] == A:
            v = Obj(**{step[1]: v})
        elif step[0] == I:
            v = [v]
        elif step[0] == K:
            v = {"k": v}
        else:
            v = (lambda v=v: v)
    return v


def ref_field(event, root, path, conv, spec, use_spec=True):
    v = event[root]
    for step in path:
        if step[0] == A:
            v = getattr(v, step[1])
        elif step[0] == C:
            v = v()
        else:
            v = v[step[1]]
    if conv == "r":
        v = repr(v)
    elif conv == "s":
        v = str(v)
    elif conv == "a":
        v = ascii(v)
    if not use_spec:
        return str(v)       # what a renderer that never calls format(value, spec) would produce
    sp = (spec or "").replace("{w}", format(event["w"], ""))
    return format(v, sp)


def literal(s):
    return s.replace("{{", "{").replace("}}", "}")


class Case:
    """fields: list of (root, path index, conv, spec); lits: index; leaf: label."""

    def __init__(self, fields, lits, leaf):
        self.fields, self.lits, self.leaf = [tuple(f) for f in fields], lits, leaf

    def fmt(self):
        lits = LITS[self.lits]
        out = lits[0]
        for i, (root, p, conv, spec) in enumerate(self.fields):
            out += field_text(root, PATHS[p], conv, spec) + lits[i + 1]
        return out

    def event(self):
        ev = {"log_format": self.fmt(), "w": W, "log_namespace": "ns", "log_time": 1.5,
              (1, 2): "non-text key", 3: b"\xfe"}
        for (root, p, conv, spec) in self.fields:
            if root not in ev:
                ev[root] = wrap(PATHS[p], LEAVES[self.leaf]())
        return ev

    def reference(self, ev, use_spec=True):
        lits = LITS[self.lits]
        out = literal(lits[0])
        for i, (root, p, conv, spec) in enumerate(self.fields):
            out += ref_field(ev, root, PATHS[p], conv, spec, use_spec) + literal(lits[i + 1])
        return out

    def witness(self):
        return {"fields": [list(f) for f in self.fields], "lits": self.lits, "leaf": self.leaf}

    def describe(self):
        return "%s|leaf=%s" % (self.fmt().replace("\xe9", "e"), self.leaf)


def call_before_last(case):
    return any(C in [s[0] for s in PATHS[p][:-1]] for (_, p, _, _) in case.fields)


def run_case(case):
    """-> (status, failures) ; status 'out-of-scope:*' or 'in-scope'; failures = [(leg, kind, known_sig|None, detail)]."""
    from twisted.logger import formatEvent, eventAsJSON, eventFromJSON
    from twisted.logger._flatten import flattenEvent
    ev = case.event()
    try:
        ref = case.reference(ev)
        ref_nospec = case.reference(ev, use_spec=False)
    except Exception:
        return "out-of-scope:reference-raises", []
    orig = formatEvent(dict(ev))
    # The event is in scope because its fields evaluate (reference).  If formatEvent(original) does not produce
    # the reference text, the three real outputs are still compared with each other, but no failure is then
    # attributed to an already staged defect (their shapes are defined relative to a correct original).
    orig_ok = orig == ref
    FALLBACK = ("Unable to format event", "MESSAGE LOST")
    differs = "text-differs" if orig_ok else "text-differs-from-unformattable-original"
    fails = []

    def same(got):
        if got == ("text", orig):
            return True
        # two generic "unformattable" texts differ only in the repr of the event (log_flattened was added)
        return got[0] == "text" and got[1].startswith(FALLBACK) and orig.startswith(FALLBACK)

    def known_shape(got):
        """Signature of an already staged defect whose predicted observable behaviour this is, or None."""
        if got == ("raises", "eventAsJSON:ValueError") and case.leaf == "self-referential-list":
            return "eventAsJSON:raises:self-referential-container"    # independent of the original's text
        if not orig_ok:
            return None
        if got[0] == "raises":
            exc = got[1].split(":")[-1]
            if call_before_last(case) and exc in ("KeyError", "AttributeError") and "eventFromJSON" not in got[1]:
                return "flattenEvent:raises:call-before-last-lookup-segment"
            return None
        if any(conv == "a" for (_, _, conv, _) in case.fields) and got[1].startswith("Unable to format event"):
            return "flatten:conversion-a-unformattable-after-flattening"
        if got[1] == ref_nospec and ref_nospec != ref:
            return "flatten:field-rendered-with-str-not-format-spec"
        return None

    # leg 1: flatten
    e2 = dict(ev)
    try:
        flattenEvent(e2)
        flat = ("text", formatEvent(e2))
    except Exception as e:
        flat = ("raises", type(e).__name__)
    flat_known = None
    if not same(flat):
        flat_known = known_shape(flat)
        fails.append(("flatten", flat[0] if flat[0] == "raises" else differs, flat_known,
                      "original %r, after flattenEvent %r" % (orig, flat[1])))
    # leg 2: JSON of the unflattened event; leg 3: JSON of the flattened event
    seen = []
    for leg, src in (("json", dict(ev)), ("flatten+json", e2 if flat[0] == "text" else None)):
        if src is None:
            continue
        try:
            text = eventAsJSON(src)
        except Exception as e:
            got = ("raises", "eventAsJSON:" + type(e).__name__)
        else:
            try:
                got = ("text", formatEvent(eventFromJSON(text)))
            except Exception as e:
                got = ("raises", "eventFromJSON:" + type(e).__name__)
        if same(got):
            continue
        k = known_shape(got)
        if not same(flat) and (got == flat or (k is not None and k == flat_known)):
            continue   # the same observable failure as the flatten leg: one defect, reported there
        if got in seen:
            continue   # same failure as the plain JSON leg
        seen.append(got)
        fails.append((leg, "raises-" + got[1] if got[0] == "raises" else differs, k,
                      "original %r, after %s %r" % (orig, leg, got[1])))
    return "in-scope", fails


def simplifications(case):
    f, l, leaf = case.fields, case.lits, case.leaf
    if len(f) > 1:
        for i in range(len(f)):
            yield Case(f[:i] + f[i + 1:], l, leaf)
    if l:
        yield Case(f, 0, leaf)
    for i, (root, p, conv, spec) in enumerate(f):
        if spec is not None:
            yield Case(f[:i] + [(root, p, conv, None)] + f[i + 1:], l, leaf)
        if conv is not None:
            yield Case(f[:i] + [(root, p, None, spec)] + f[i + 1:], l, leaf)
        if p != 0:
            for q in range(p):
                yield Case(f[:i] + [(root, q, conv, spec)] + f[i + 1:], l, leaf)
        if root != "a":
            yield Case(f[:i] + [("a", p, conv, spec)] + f[i + 1:], l, leaf)
    if leaf != "str":
        yield Case(f, l, "str")


def minimise(case, leg, kind):
    changed = True
    while changed:
        changed = False
        for c2 in simplifications(case):
            status, fails = run_case(c2)
            if any(f[0] == leg and f[1] == kind and f[2] is None for f in fails):
                case = c2
                changed = True
                break
    return case


def evaluate(st, case):
    st.evaluations += 1
    status, fails = run_case(case)
    if status != "in-scope":
        st.outcome(status)
        return
    shaped = any(PATHS[p] or conv or spec for (_, p, conv, spec) in case.fields) or \
        len(set(case.fields)) < len(case.fields)
    if shaped:
        st.nt((tuple(case.fields), case.lits, case.leaf))
    if not fails:
        st.outcome("equal")
        return
    for leg, kind, known, detail in fails:
        if known:
            st.outcome("known:" + known)
            st.violation(known, "%s: %s" % (case.fmt(), detail), case.witness())
            continue
        key = (leg, kind)
        small = minimise(case, leg, kind)
        sig = "%s:%s:%s" % (leg, kind, small.describe())
        st.outcome("%s:%s" % key)
        st.violation(sig, "%s (minimised from %s, leaf %s): %s" % (small.fmt(), case.fmt(), case.leaf, detail),
                     small.witness())


def all_fields(root="a"):
    return [(root, p, conv, spec) for p in range(len(PATHS)) for conv in CONVS for spec in SPECS]


def second_variants(f):
    root, p, conv, spec = f
    return [f,                                            # exact duplicate -> "/2" key suffix
            (root, p, "r" if conv != "r" else "s", spec),     # same field, other conversion
            (root, p, conv, ">6" if spec != ">6" else "*^7"),  # same field, other spec
            ("a", 0, None, None),                        # the root object itself
            ("c", p, conv, spec),                        # same shape under another key
            ("w", 0, None, None)]


def cases(tier):
    fields = all_fields()
    for f in fields:
        for leaf in LEAVES:
            yield Case([f], 0, leaf)
            yield Case([f], 1, leaf)
    for f in fields:
        for f2 in second_variants(f):
            for lits in (0, 1):
                for leaf in LEAVES:
                    yield Case([f, f2], lits, leaf)
    for f in fields:
        for leaf in LEAVES:
            yield Case([f, f, f], 0, leaf)
            yield Case([f, ("a", f[1], "r", f[3]), f], 1, leaf)
    if tier == "thorough":
        for f in fields:
            for f2 in fields:
                for leaf in REDUCED_LEAVES:
                    yield Case([f, f2], 1, leaf)


NSHARDS = 48


def shards(tier, seed):
    return list(range(NSHARDS))


def run_shard(shard, tier, seed):
    st = Stats()
    last = None
    for i, case in enumerate(cases(tier)):
        if i % NSHARDS == shard:
            evaluate(st, case)
            last = case
    if last is not None:
        st.sample(last.witness())
    return st


def replay(w):
    case = Case([tuple(f) for f in w["fields"]], w["lits"], w["leaf"])
    status, fails = run_case(case)
    out = []
    for leg, kind, known, detail in fails:
        out.append((known or "%s:%s:%s" % (leg, kind, case.describe()), detail))
    return out
