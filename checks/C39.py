"""C39 Telnet option negotiation always converges.

Explicit-state search over two REAL twisted.conch.telnet.Telnet endpoints joined by two FIFO message queues.
Events: any will/wont/do/dont request the side's policy allows, on any option, by either side; deliver the oldest
in-flight message of either direction.  Every transition runs on the real objects.  Checked in every state: no
exception/assertion, no Deferred fired twice; in every state with both queues empty: every request Deferred has
fired exactly once and both sides agree on us/him for every option; over the whole reached graph: the
delivery-only subgraph is acyclic (no negotiation loop) and in-flight messages stay bounded.
"""
import traceback

from twisted.conch import telnet        # imported once in the parent; workers are forked
from mc.bfs import bfs
from mc.net import MemTransport
from mc.runner import Stats

ID = "C39"
LEVEL = "model_checking"
TECHNIQUE = "explicit-state BFS over two real Telnet objects with FIFO channels; cycle detection on the delivery subgraph"
RULE = ("BFS over histories of request(side, will|wont|do|dont, option[, chained]) / deliver(direction) on two real Telnet endpoints "
        "(a chained request makes the application issue, from inside the callback of that request's Deferred, the follow-up request "
        "for the same option: the opposite request after success, the same request after a refusal) whose "
        "enableLocal/enableRemote policy accepts exactly the options the side may itself request (policy pairs: every combination of "
        "{accept-all, accept-none, local-only, remote-only} for one option; all/all, all/none, disjoint and local/remote-split policies for "
        "two options). A request that is refused on the spot (AlreadyNegotiating/AlreadyEnabled/AlreadyDisabled) changes nothing and "
        "merges with its source state, so the search runs to a fixpoint over an UNBOUNDED number of requests (quick tier: <= 4 "
        "effective requests for the largest two-option configuration). non-trivial = distinct canonical states with a message in flight "
        "while a request is pending, i.e. genuine interleavings")
BOUNDS = {"quick": "1 option: fixpoint (unbounded requests, plain and chained) for 16 policy pairs; 2 options: fixpoint for 4 restricted policy "
                   "pairs (chained requests in 3 of them); both sides accepting everything: <= 4 effective plain requests, and <= 3 effective "
                   "requests with chained ones",
          "thorough": "fixpoint (unbounded number of plain and chained requests) for every configuration except 2 options with both sides "
                      "accepting everything: there fixpoint for plain requests (28880 states) and <= 4 effective requests with chained ones"}
ASSUMPTIONS = [
    "channels are reliable FIFO per direction and carry whole 3-byte negotiation commands (segmentation is C38's subject)",
    "canonical state = per side and option (us.state, us.negotiating, him.state, him.negotiating, onResult set?) read from the documented "
    "options attribute, both queues, the multiset of unfired requests (with their chained flag) and (two options) the number of effective requests; fired requests are dropped "
    "after their fire count was checked because nothing references them again",
    "'negotiation loop' = a cycle among canonical states using delivery transitions only; 'diverges' = more than 6 messages per option in flight in one direction "
    "(a correct endpoint has at most one outstanding request per option and answers each message at most once)",
]
MIN = {"quick": {"states": 22000, "nontrivial": 20000, "outcomes": 14, "transitions": 165000},
       "thorough": {"states": 125000, "nontrivial": 125000, "outcomes": 14, "transitions": 1250000}}

OPTS = [b"\x01", b"\x03"]
KINDS = ["will", "wont", "do", "dont"]
POL = {"all": (True, True), "none": (False, False), "local": (True, False), "remote": (False, True)}


class EP(telnet.Telnet):
    """Real Telnet with an application policy; nothing else is overridden."""

    def __init__(self, acc_local, acc_remote):
        telnet.Telnet.__init__(self)
        self.acc_local, self.acc_remote = acc_local, acc_remote

    def enableLocal(self, option):
        return option in self.acc_local

    def enableRemote(self, option):
        return option in self.acc_remote

    def disableLocal(self, option):
        pass

    def disableRemote(self, option):
        pass


class St:
    def __init__(self, cfg):
        self.cfg = cfg
        self.nopt = cfg["nopt"]
        self.opts = OPTS[:self.nopt]
        self.ep, self.tr = [], []
        for side in (0, 1):
            al = set(o for o, p in zip(self.opts, cfg["pol"][side]) if POL[p][0])
            ar = set(o for o, p in zip(self.opts, cfg["pol"][side]) if POL[p][1])
            e = EP(al, ar)
            t = MemTransport()
            e.makeConnection(t)
            self.ep.append(e)
            self.tr.append(t)
        self.q = [[], []]            # q[d]: messages travelling from side d to side 1-d
        self.reqs = []               # dicts side, kind, opt, fired, result
        self.errors = []
        self.effective = 0
        self.flags = set()
        self.maxq = 0

    def collect(self):
        for side in (0, 1):
            data = self.tr[side].value()
            self.tr[side].clear()
            if len(data) % 3:
                self.errors.append(("harness:partial-message", repr(data)))
            for i in range(0, len(data) - 2, 3):
                self.q[side].append(data[i:i + 3])
            self.maxq = max(self.maxq, len(self.q[side]))


def _where(e):
    tb = traceback.extract_tb(e.__traceback__)
    for fr in reversed(tb):
        if fr.filename.endswith("telnet.py"):
            return fr.name
    return tb[-1].name if tb else "?"


GRAPH = {}        # delivery edges canon -> set(canon), filled by apply (per shard process)
CTL = {"viol": 0, "pendcap": False}   # search control: stop expanding once 20 violating transitions were seen
OUT = set()       # outcome classes seen by apply (refused requests do not create new states, so on_state misses them)


OPPOSITE = {"will": "wont", "wont": "will", "do": "dont", "dont": "do"}


def _allowed(e, kind, opt):
    if kind == "will":
        return opt in e.acc_local
    if kind == "do":
        return opt in e.acc_remote
    return True


def issue(st, side, kind, oi, chain, chained_from=None):
    """Issue one request on the real endpoint.  chain=1: when this request completes, the application issues
    the follow-up request for the same option *from inside the Deferred's callback* (the opposite request after a
    success, the same request again after a refusal), the ordinary way of sequencing negotiations."""
    opt = st.opts[oi]
    rec = {"side": side, "kind": kind, "opt": oi, "fired": 0, "result": None, "chain": chain}
    st.reqs.append(rec)

    def ok(r, rec=rec):
        rec["fired"] += 1
        rec["result"] = "ok"

    def err(f, rec=rec):
        rec["fired"] += 1
        rec["result"] = f.type.__name__

    def follow(_, rec=rec):
        k2 = OPPOSITE[kind] if rec["result"] == "ok" else kind
        rec["chain"] = 0
        if _allowed(st.ep[side], k2, opt):
            OUT.add("chained-from-callback:%s:%s->%s" % (kind, rec["result"], k2))
            issue(st, side, k2, oi, 0, chained_from=kind)
    try:
        d = getattr(st.ep[side], kind)(opt)
        immediate = bool(getattr(d, "called", False))
        d.addCallbacks(ok, err)
        if chain and not immediate:
            d.addBoth(follow)
        else:
            rec["chain"] = 0
    except Exception as e:
        st.errors.append(("Telnet.%s:exception:%s@%s" % (kind, type(e).__name__, _where(e)), repr(e)))
        immediate = True
    rec["immediate"] = immediate
    if not immediate:
        st.effective += 1
        OUT.add("request-sent:" + kind)
    else:
        OUT.add("request-refused-on-the-spot:" + str(rec["result"]))


def apply(st, ev):
    if ev[0] == "req":
        side, kind, oi = ev[1], ev[2], ev[3]
        chain = ev[4] if len(ev) > 4 else 0
        issue(st, side, kind, oi, chain)
        st.collect()
    else:
        _, d = ev
        before = canon(st)
        msg = st.q[d].pop(0)
        try:
            st.ep[1 - d].dataReceived(msg)
        except Exception as e:
            cmd = {telnet.WILL: "WILL", telnet.WONT: "WONT", telnet.DO: "DO", telnet.DONT: "DONT"}.get(msg[1:2], "?")
            st.errors.append(("Telnet.dataReceived(%s):exception:%s@%s" % (cmd, type(e).__name__, _where(e)), repr(e)))
        st.collect()
        GRAPH.setdefault(before, set()).add(canon(st))
        for r in st.reqs:
            if r["fired"] and not r.get("immediate") and not r.get("seen"):
                r["seen"] = True
                OUT.add("negotiated:%s:%s" % (r["kind"], r["result"]))


def enabled(st):
    evs = []
    if CTL["viol"] >= 20:
        return evs
    budget = st.cfg.get("budget")
    if budget is None or st.effective < budget:
        for side in (0, 1):
            e = st.ep[side]
            for oi, opt in enumerate(st.opts):
                for kind in KINDS:
                    if not _allowed(e, kind, opt):
                        continue
                    if sum(1 for r in st.reqs if r["fired"] == 0 and r["side"] == side and r["opt"] == oi) >= 2:
                        # never on the unchanged tree (a second request is refused on the spot); keeps the space
                        # finite when a faulty endpoint lets unanswered requests pile up
                        CTL["pendcap"] = True
                        continue
                    evs.append(("req", side, kind, oi, 0))
                    if st.cfg.get("chain", True):
                        evs.append(("req", side, kind, oi, 1))
    for d in (0, 1):
        if st.q[d]:
            evs.append(("dlv", d))
    return evs


def _optstate(e, opt):
    s = e.getOptionState(opt)
    return (s.us.state, bool(s.us.negotiating), s.him.state, bool(s.him.negotiating),
            s.us.onResult is not None, s.him.onResult is not None)


def canon(st):
    sides = tuple(tuple(_optstate(e, o) for o in st.opts) + (getattr(e, "state", "data"),) for e in st.ep)
    pend = tuple(sorted((r["side"], r["kind"], r["opt"], r["chain"]) for r in st.reqs if r["fired"] == 0))
    eff = st.effective if st.cfg.get("budget") is not None else 0
    return (sides, tuple(st.q[0]), tuple(st.q[1]), pend, eff)


def invariant(st, hist):
    out = _invariant(st, hist)
    if out:
        CTL["viol"] += 1
    return out


def _invariant(st, hist):
    out = list(st.errors)
    for r in st.reqs:
        if r["fired"] > 1:
            out.append(("Telnet.%s:request-deferred-fired-%d-times" % (r["kind"], r["fired"]), repr(r)))
    for d in (0, 1):
        if len(st.q[d]) > 6 * st.nopt:
            out.append(("Telnet:negotiation-diverges:in-flight-messages-grow", "queue %d: %r" % (d, st.q[d])))
    if not st.q[0] and not st.q[1]:
        for r in st.reqs:
            if r["fired"] == 0:
                out.append(("Telnet.%s:request-deferred-never-fires" % r["kind"],
                            "side %d %s(option %d) still pending with no message in flight" % (r["side"], r["kind"], r["opt"])))
        a, b = st.ep
        for oi, o in enumerate(st.opts):
            sa, sb = a.getOptionState(o), b.getOptionState(o)
            for x, y, who in ((sa, sb, "A"), (sb, sa, "B")):
                if x.us.state != y.him.state:
                    out.append(("Telnet:peers-disagree-at-quiescence:us=%s,peer-him=%s" % (x.us.state, y.him.state),
                                "option %d: %s.us=%s but peer.him=%s" % (oi, who, x.us.state, y.him.state)))
    return out


def find_cycle(graph):
    WHITE, GREY, BLACK = 0, 1, 2
    color = {}
    for root in graph:
        if color.get(root, WHITE) != WHITE:
            continue
        stack = [(root, iter(graph.get(root, ())))]
        color[root] = GREY
        while stack:
            node, it = stack[-1]
            for nxt in it:
                c = color.get(nxt, WHITE)
                if c == GREY:
                    return nxt
                if c == WHITE:
                    color[nxt] = GREY
                    stack.append((nxt, iter(graph.get(nxt, ()))))
                    break
            else:
                color[node] = BLACK
                stack.pop()
    return None


def configs(tier):
    out = []
    names = ["all", "none", "local", "remote"]
    for a in names:
        for b in names:
            out.append({"nopt": 1, "pol": [[a], [b]], "budget": None, "depth": 40, "chain": True})
    two = [(["all", "all"], ["all", "all"]), (["all", "all"], ["none", "none"]), (["all", "none"], ["none", "all"]),
           (["local", "local"], ["remote", "remote"]), (["all", "local"], ["remote", "all"])]
    for i, (a, b) in enumerate(two):
        base = {"nopt": 2, "pol": [a, b], "depth": 80}
        if i == 0:      # both sides accept everything: the largest space
            if tier == "quick":
                out.append(dict(base, budget=4, chain=False))
                out.append(dict(base, budget=3, chain=True))
            else:
                out.append(dict(base, budget=None, chain=False))
                out.append(dict(base, budget=4, chain=True))
        elif i == 4 and tier == "quick":
            out.append(dict(base, budget=None, chain=False))
        else:
            out.append(dict(base, budget=None, chain=True))
    return out


def shards(tier, seed):
    return configs(tier)


def run_shard(cfg, tier, seed):
    GRAPH.clear()
    OUT.clear()
    CTL.update(viol=0, pendcap=False)
    stats = Stats()
    hist_of = {}

    def on_state(st, hist):
        k = canon(st)
        hist_of[k] = hist
        pend = any(r["fired"] == 0 for r in st.reqs)
        if pend and (st.q[0] or st.q[1]):
            stats.nt((repr(cfg["pol"]), k))
        stats.counters["in_flight_max"] = max(stats.counters.get("in_flight_max", 0), st.maxq)

    res = bfs(lambda: St(cfg), apply, enabled, canon, invariant, cfg["depth"], on_state=on_state)
    stats.add_bfs(res, {"cfg": cfg})
    if res.max_depth >= cfg["depth"]:
        stats.exhaustive = False
        stats.notes.append("C39: depth bound %d reached for %r (no fixpoint)" % (cfg["depth"], cfg["pol"]))
    stats.counters["depth_max"] = res.max_depth
    if CTL["viol"] >= 20 or CTL["pendcap"]:
        stats.exhaustive = False
        stats.notes.append("C39: search cut short for %r (%s)" % (cfg["pol"], "20 violating transitions" if CTL["viol"] >= 20 else "more than 2 unanswered requests per side and option"))
    for o in OUT:
        stats.outcome(o)
    node = find_cycle(GRAPH)
    if node is not None:
        stats.violation("Telnet:negotiation-loop:delivery-only-cycle",
                        "a sequence of deliveries alone returns to the same state %r" % (node,),
                        {"cfg": cfg, "history": hist_of.get(node, []), "cycle": True})
    stats.samples = [{"cfg": cfg["pol"], "history": h} for h in res.samples[:2]]
    return stats


def replay(w):
    cfg = w["cfg"]
    st = St(cfg)
    GRAPH.clear()
    for ev in w["history"]:
        if ev[0] == "dlv" and not st.q[ev[1]]:
            return []          # the recorded history is not executable on this tree: not reproduced
        apply(st, tuple(ev))
    out = list(_invariant(st, w["history"]))
    CTL.update(viol=0, pendcap=False)
    if w.get("cycle"):
        # explore deliveries only from here, look for a cycle
        hist0 = [tuple(e) for e in w["history"]]
        seen, frontier = {canon(st)}, [hist0]
        while frontier and len(seen) < 10000:
            h = frontier.pop()
            s = St(cfg)
            for ev in h:
                apply(s, ev)
            for d in (0, 1):
                if s.q[d]:
                    s2 = St(cfg)
                    for ev in h + [("dlv", d)]:
                        apply(s2, ev)
                    k = canon(s2)
                    if k not in seen:
                        seen.add(k)
                        frontier.append(h + [("dlv", d)])
        if find_cycle(GRAPH) is not None:
            out.append(("Telnet:negotiation-loop:delivery-only-cycle", "cycle reproduced"))
    return out
