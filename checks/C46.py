"""C46 endpoint descriptions: quoteStringArgument(text) put into any argument position parses back to exactly text.

Driven two ways: through the public serverFromString / clientFromString with a
capturing parser plugin (the harness rebinds endpoints.getPlugins, nothing
else), and through endpoints._parse, the function both share.
"""
import itertools

from mc.runner import Stats

ID = "C46"
LEVEL = "exploration"
TECHNIQUE = "bounded-exhaustive input enumeration, identity oracle on the parsed args/kwargs"
RULE = ("every text of <= L characters over {':', '=', backslash, 'a', e-acute, space, '/', LF} (and the empty text) is "
        "quoted with the real quoteStringArgument and inserted into 11 description templates (first / middle / last "
        "positional, positional after a keyword, keyword value first / middle / last, two quoted texts at once) of a "
        "server and of a client description; the description is parsed by serverFromString / clientFromString (capturing "
        "plugin) and by endpoints._parse; the oracle is: exactly the expected positional list and keyword dict.  "
        "non-trivial = distinct (text, template) whose quoted form differs from the text")
BOUNDS = {"quick": "texts <= 4 characters over 8 symbols (4681 texts) x 11 templates x {server, client, _parse}",
          "thorough": "texts <= 6 characters over 8 symbols (299593 texts) x 11 templates x {server, client, _parse}"}
ASSUMPTIONS = [
    "descriptions are str (quoteStringArgument is documented for str)",
    "the capturing plugin is found because the harness rebinds twisted.internet.endpoints.getPlugins; if a refactoring "
    "removes that name or _parse, that driving route is skipped (counted), the other one still decides",
    "characters outside the 8-symbol alphabet behave like 'a' or e-acute (the tokenizer special-cases only ':', '=', backslash)",
]
MIN = {"quick": {"evaluations": 100000, "nontrivial": 24000, "outcomes": 2},
       "thorough": {"evaluations": 6000000, "nontrivial": 1800000, "outcomes": 2}}

ALPHA = [":", "=", "\\", "a", "é", " ", "/", "\n"]
OTHER = "=x:\\"      # second (fixed) text in keyword-value position for the two-at-once templates
OTHER_POS = "x:\\y"   # second (fixed) text in positional position (no '=': that defect is decided on the enumerated text)

# (name, template pieces, expected args after the endpoint name, expected kwargs); Q = quoted text, R / S = quoted OTHER / OTHER_POS
TEMPLATES = [
    ("pos-only",        "{P}:{Q}",             lambda t: ([t], {})),
    ("pos-first",       "{P}:{Q}:x:y",         lambda t: ([t, "x", "y"], {})),
    ("pos-middle",      "{P}:x:{Q}:y",         lambda t: (["x", t, "y"], {})),
    ("pos-last",        "{P}:x:y:{Q}",         lambda t: (["x", "y", t], {})),
    ("pos-after-kw",    "{P}:k=v:{Q}",         lambda t: ([t], {"k": "v"})),
    ("pos-before-kw",   "{P}:{Q}:k=v",         lambda t: ([t], {"k": "v"})),
    ("kw-only",         "{P}:k={Q}",           lambda t: ([], {"k": t})),
    ("kw-middle",       "{P}:x:j=w:k={Q}:y",   lambda t: (["x", "y"], {"j": "w", "k": t})),
    ("kw-last",         "{P}:x:k={Q}",         lambda t: (["x"], {"k": t})),
    ("pos-and-kw",      "{P}:{Q}:k={R}",       lambda t: ([t], {"k": OTHER})),
    ("kw-and-pos",      "{P}:k={Q}:{S}",       lambda t: ([OTHER_POS], {"k": t})),
]
POSITIONAL = {"pos-only", "pos-first", "pos-middle", "pos-last", "pos-after-kw", "pos-before-kw", "pos-and-kw"}
PREFIX = "zzcap"


class _Capture:
    """Stands in for a parser plugin; records what the parser hands over."""
    prefix = PREFIX

    def __init__(self):
        self.got = None

    def parseStreamServer(self, reactor, *args, **kw):
        self.got = (list(args), dict(kw))
        return self

    def parseStreamClient(self, reactor, *args, **kw):
        self.got = (list(args), dict(kw))
        return self


def parse_via(route, description):
    """-> (args, kwargs) as seen by an endpoint parser, or None if the route does not exist any more."""
    from twisted.internet import endpoints
    if route == "_parse":
        f = getattr(endpoints, "_parse", None)
        if f is None:
            return None
        args, kw = f(description)
        return list(args[1:]), dict(kw)
    if not hasattr(endpoints, "getPlugins"):
        return None
    cap = _Capture()
    saved = endpoints.getPlugins
    endpoints.getPlugins = lambda iface, *a, **k: [cap]
    try:
        if route == "server":
            endpoints.serverFromString(None, description)
        else:
            endpoints.clientFromString(None, description)
    finally:
        endpoints.getPlugins = saved
    return cap.got


def judge(text, tname, route):
    from twisted.internet import endpoints
    tpl = next(t for t in TEMPLATES if t[0] == tname)
    q = endpoints.quoteStringArgument(text)
    desc = tpl[1].replace("{P}", PREFIX).replace("{R}", endpoints.quoteStringArgument(OTHER)).replace(
        "{S}", endpoints.quoteStringArgument(OTHER_POS)).replace("{Q}", q)
    want = tpl[2](text)
    det = {"text": text, "quoted": q, "description": desc, "route": route, "template": tname, "want": repr(want)}
    try:
        got = parse_via(route, desc)
    except Exception as e:  # noqa - a description made only of quoted texts must parse
        det["exception"] = repr(e)[:200]
        key = text.partition("=")[0]
        if tname in POSITIONAL and "=" in text and isinstance(e, UnicodeError) and not key.isascii():
            return [("quoteStringArgument:equals-sign-not-escaped:positional-argument-parsed-as-keyword:"
                     "non-ascii-name-raises-" + type(e).__name__, det)], "bad", q
        return [("endpoints.quote/parse:raises-" + type(e).__name__, det)], "bad", q
    if got is None:
        return [], "route-missing", q
    if got == want:
        return [], ("ok:escaped" if q != text else "ok:verbatim"), q
    det["got"] = repr(got)
    # name the shape
    if tname in POSITIONAL and "=" in text:
        key, _, val = text.partition("=")
        wargs, wkw = want
        ka = list(wargs)
        ka.remove(text)          # the text is missing from the positionals ...
        kk = dict(wkw)
        kk[key] = val            # ... and turned up as keyword text[:i] = text[i+1:]
        if got[0] == ka and (got[1] == kk or (key in wkw and set(got[1]) == set(wkw))):
            return [("quoteStringArgument:equals-sign-not-escaped:positional-argument-parsed-as-keyword", det)], "bad", q
    return [("endpoints.quote/parse:" + ("positional" if tname in POSITIONAL else "keyword-value") + "-differs", det)], "bad", q


def texts(maxlen):
    yield ""
    for n in range(1, maxlen + 1):
        for t in itertools.product(ALPHA, repeat=n):
            yield "".join(t)


ROUTES = ["server", "client", "_parse"]


def shards(tier, seed):
    if tier == "quick":
        return [[None, 4]] + [[[a], 4] for a in range(len(ALPHA))] + \
               [[[a, b], 4] for a in range(len(ALPHA)) for b in range(len(ALPHA))]
    return [[None, 6]] + [[[a], 6] for a in range(len(ALPHA))] + \
           [[[a, b], 6] for a in range(len(ALPHA)) for b in range(len(ALPHA))]


def _shard_texts(shard):
    head, maxlen = shard
    if head is None:
        yield ""
        return
    h = "".join(ALPHA[i] for i in head)
    if len(head) == 1:
        yield h
        return
    for n in range(0, maxlen - len(head) + 1):
        for t in itertools.product(ALPHA, repeat=n):
            yield h + "".join(t)


def run_shard(shard, tier, seed):
    st = Stats()
    last = None
    for text in _shard_texts(shard):
        for tpl in TEMPLATES:
            for route in ROUTES:
                st.evaluations += 1
                bad, outcome, q = judge(text, tpl[0], route)
                st.outcome(outcome)
                if outcome == "route-missing":
                    st.count("route_missing_" + route)
                if q != text:
                    st.nt((text, tpl[0]))
                for sig, det in bad:
                    st.violation(sig, det, {"text": [ord(c) for c in text], "template": tpl[0], "route": route})
        last = text
    if last is not None:
        st.sample({"text": last, "templates": len(TEMPLATES), "routes": ROUTES})
    return st


def replay(w):
    return judge("".join(chr(i) for i in w["text"]), w["template"], w["route"])[0]
