"""Standalone probe (no harness) for the C40 findings: real SMTPClient -> real SMTP server over twisted.test.iosim.
usage: /venv/bin/python checks/_C40_probe.py   -> prints what the server-side message received for three bodies"""
import io
from zope.interface import implementer
from twisted.internet import defer
from twisted.mail import smtp
from twisted.protocols import basic
from twisted.test import iosim

@implementer(smtp.IMessage)
class M:
    def __init__(s, out): s.out = out
    def lineReceived(s, l): s.out.append(l)
    def eomReceived(s): s.out.append("<EOM>"); return defer.succeed(None)
    def connectionLost(s): pass

@implementer(smtp.IMessageDelivery)
class D:
    def __init__(s, out): s.out = out
    def receivedHeader(s, *a): return b""
    def validateFrom(s, helo, origin): return origin
    def validateTo(s, user): return lambda: M(s.out)

class C(smtp.SMTPClient):
    n = 1
    def getMailFrom(s):
        s.n -= 1
        return b"a@x" if s.n == 0 else None
    def getMailTo(s): return [b"b@y"]
    def getMailData(s): return io.BytesIO(s.body)
    def sentMail(s, *a): pass

def send(body, chunk):
    basic.FileSender.CHUNK_SIZE = chunk
    out = []
    server = smtp.SMTP(D(out)); server.timeout = None; server.noisy = False
    cmds = []
    orig = server.state_COMMAND
    server.state_COMMAND = lambda line: (cmds.append(line), orig(line))[1]
    client = C(b"me"); client.body = body
    c, s, pump = iosim.connectedServerAndClient(lambda: server, lambda: client)
    pump.flush()
    print("body %r chunk %d -> message %r; command-mode lines %r" % (body, chunk, out, cmds[4:]))

send(b".hidden\nx\n", 2 ** 14)          # leading dot of the first line is lost
send(b"a\n.b\n", 2)                     # dot at a read-chunk boundary is lost
send(b"x\n.\nRSET\n", 2)                # lone dot at a chunk boundary ends DATA; the rest is run as commands
send(b".\nQUIT\n", 2 ** 14)             # same for a first line consisting of '.'
