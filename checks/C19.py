"""C19 HTTP/1.1 server framing follows RFC 9112: every stream of a bounded grammar (framing-header products, byte
sweeps through request line and header fields, chunked bodies with single-site mutations), each followed by a fixed
pipelined request (the smuggling detector), is fed to a real HTTPChannel and the delivered requests / 400s / closure
are compared with the set of outcomes a spec-derived reference parser allows; h11 validates the reference on the
strictly well-formed subset."""
import re

from mc.runner import Stats
from checks import _http as H
from checks._http import is_token, ref_chunked, WS

ID = "C19"
LEVEL = "exploration"
TECHNIQUE = "bounded-exhaustive input enumeration against a set-valued RFC 9112 reference parser (+h11 on the strict subset)"
RULE = ("F1: (27 Content-Length forms) x (16 Transfer-Encoding forms) x header order x 3 name capitalisations x HTTP/1.1|1.0 x "
        "3 payloads (raw, chunked, CL.TE smuggling payload); F2: every byte 0-255 at 14 request-line positions (method, "
        "separators, target, version) + explicit version list; F3: every byte 0-255 at 16 header positions (name, before colon, "
        "value, Content-Length / Transfer-Encoding value and name); F4: chunked bodies from the C22 grammar and every single-site "
        "mutation (17 replacement bytes, deletion, CRLF deletion) of 24 bases; F5: obs-fold / leading-CRLF / bare-LF / bare-CR / "
        "colon structure cases. Every stream is followed by 'GET /second' and delivered whole and byte-at-a-time. "
        "non-trivial = distinct streams for which the reference has a must-reject reason or an RFC-permitted choice; "
        "outcomes = distinct (reference verdict class, observed shape)")
BOUNDS = {"quick": "38.7k streams x {whole, bytewise}", "thorough": "quick space + byte sweeps at 2 simultaneous positions over a 24-byte alphabet + 2-site chunk mutations of 8 bases"}
ASSUMPTIONS = [
    "reference = RFC 9112/9110 grammar; where the RFC lets the recipient choose (obs-fold, bare CR/LF/NUL in values, other CTLs, "
    "bare-LF line ends, whitespace-delimited request line, leading empty lines, repeated identical Content-Length, "
    "Transfer-Encoding: identity, TE in HTTP/1.0, empty list elements, BWS / malformed-but-clean chunk extensions, malformed "
    "trailer lines, unsupported minor versions, non-URI VCHARs in the target) both '400 and close' and the tolerant reading are accepted",
    "must-reject (exactly the list in the statement): Content-Length with chunked, differing or non-numeric Content-Length, a "
    "transfer coding other than a single final 'chunked', chunk size not hex / data not followed by CRLF / control byte in "
    "extension, request line that is not 3 words or has a non-token method, non-VCHAR target byte or a version not matching "
    "HTTP/d.d, field line without colon, empty or non-token field name (incl. whitespace before the colon)",
    "a request after an HTTP/1.0 or Connection: close request may or may not be processed; if processed it must be the reference's",
    "the resource answers 200 immediately; response statuses are read back from the transport bytes",
]
MIN = {"quick": {"evaluations": 54000, "nontrivial": 21000, "outcomes": 23},
       "thorough": {"evaluations": 140000, "nontrivial": 21000, "outcomes": 23}}

REQ2 = b"GET /second HTTP/1.1\r\nHost: h\r\n\r\n"
CRLF = b"\r\n"

# ------------------------------------------------------------------ reference parser (RFC 9112)
VERSION_RE = re.compile(rb"HTTP/(\d)\.(\d)\Z")
LWS_RE = re.compile(rb"[ \t\x0b\x0c\r]+")
URI_OK = frozenset(b"ABCDEFGHIJKLMNOPQRSTUVWXYZabcdefghijklmnopqrstuvwxyz0123456789-._~!$&'()*+,;=:@/?%")


class RReq:
    __slots__ = ("method", "target", "version", "fields", "body", "notes", "feats", "may_close")

    def __init__(self):
        self.notes, self.feats, self.fields, self.body, self.may_close = [], set(), [], b"", False


def _byte_class(c):
    if c <= 0x20:
        return "CTL-or-SP"
    if c == 0x7F:
        return "DEL"
    return "0x80-0xb0" if c <= 0xB0 else "0xb1-0xff"


def _check_words(m, t, v):
    if not is_token(m):
        return "reqline-method"
    if not t:
        return "reqline-shape"
    for c in t:
        if not 0x21 <= c <= 0x7E:
            return "reqline-target-byte:" + _byte_class(c)
    if not VERSION_RE.match(v):
        return "reqline-version"
    return None


def _reqline(line, r):
    parts = line.split(b" ")
    if len(parts) == 3 and _check_words(*parts) is None:
        m, t, v = parts
    else:
        words = [w for w in LWS_RE.split(line) if w]
        if len(words) != 3:
            return "reqline-shape"
        bad = _check_words(*words)
        if bad:
            return bad
        r.notes.append("reqline-whitespace")
        m, t, v = words
    if v not in (b"HTTP/1.1", b"HTTP/1.0"):
        r.notes.append("version-unsupported")
    if not (all(c in URI_OK for c in t) and (t[:1] == b"/" or t == b"*" or b"://" in t)):
        r.notes.append("target-form")
    r.method, r.target, r.version = m, t, v
    return None


def _next_line(buf, pos, lf, r):
    if not lf:
        e = buf.find(b"\r\n", pos)
        return None if e < 0 else (buf[pos:e], e + 2)
    e = buf.find(b"\n", pos)
    if e < 0:
        return None
    ln = buf[pos:e]
    if ln.endswith(b"\r"):
        ln = ln[:-1]
    else:
        if "bare-lf-terminator" not in r.notes:
            r.notes.append("bare-lf-terminator")
    return ln, e + 1


def _digits(e):
    return len(e) > 0 and all(0x30 <= c <= 0x39 for c in e)


def _framing(r):
    """-> ('len', n) | ('chunked',) | ('reject', reason)"""
    cl = [v for n, v in r.fields if n == b"content-length"]
    te = [v for n, v in r.fields if n == b"transfer-encoding"]
    if te:
        elems = [e.strip(WS) for v in te for e in v.split(b",")]
        if b"" in elems:
            r.notes.append("te-empty-element")
            elems = [e for e in elems if e]
        low = [e.lower() for e in elems]
        if not low:
            pass
        elif all(e == b"identity" for e in low):
            r.notes.append("te-identity")
        else:
            if r.version == b"HTTP/1.0":
                r.notes.append("te-in-http10")
                r.may_close = True
            if low == [b"chunked"]:
                if cl:
                    return ("reject", "cl+te")
                return ("chunked",)
            if b"chunked" in low and (low.count(b"chunked") > 1 or low[-1] != b"chunked"):
                return ("reject", "te-chunked-repeated-or-not-final")
            return ("reject", "te-unsupported")
    if not cl:
        return ("len", 0)
    elems = [e.strip(WS) for v in cl for e in v.split(b",")]
    if b"" in elems and any(elems):
        r.notes.append("cl-empty-element")
        elems = [e for e in elems if e]
    for e in elems:
        if not _digits(e):
            return ("reject", "cl-non-numeric")
    vals = set(int(e) for e in elems)
    if len(vals) > 1:
        return ("reject", "cl-conflict")
    if len(elems) > 1:
        r.notes.append("cl-repeated-same")
    if any(len(e) > 1 and e[:1] == b"0" for e in elems):
        r.feats.add("cl-leading-zeros")
    n = vals.pop()
    if n >= 2 ** 31:
        r.notes.append("cl-huge")
    return ("len", n)


def ref_http(buf, lf=False):
    """-> (requests, terminal); terminal = ('end',) | ('incomplete', notes) | ('reject', reason)"""
    reqs, pos, n = [], 0, len(buf)
    while True:
        if pos >= n:
            return reqs, ("end",)
        r = RReq()
        lead = 0
        while True:
            x = _next_line(buf, pos, lf, r)
            if x is None:
                if lead:
                    r.notes.append("leading-empty-line")
                return reqs, ("incomplete", r.notes)
            ln, pos = x
            if ln != b"":
                break
            lead += 1
            if pos >= n:
                r.notes.append("leading-empty-line")
                return reqs, ("incomplete", r.notes)
        if lead:
            r.notes.append("leading-empty-line")
        bad = _reqline(ln, r)
        if bad:
            return reqs, ("reject", bad)
        # field lines
        while True:
            x = _next_line(buf, pos, lf, r)
            if x is None:
                return reqs, ("incomplete", r.notes)
            ln, pos = x
            if ln == b"":
                break
            if ln[0] in WS:
                if not r.fields:
                    if "ws-before-first-field" not in r.notes:
                        r.notes.append("ws-before-first-field")
                else:
                    if "obs-fold" not in r.notes:
                        r.notes.append("obs-fold")
                    r.fields[-1][1] = r.fields[-1][1].rstrip(WS) + b" " + ln.strip(WS)
                continue
            colon = ln.find(b":")
            if colon < 0:
                return reqs, ("reject", "header-no-colon")
            name = ln[:colon]
            if not is_token(name):
                if name == b"":
                    return reqs, ("reject", "header-name-empty")
                if is_token(name.rstrip(WS)):
                    return reqs, ("reject", "header-ws-before-colon")
                return reqs, ("reject", "header-name")
            r.fields.append([name.lower(), ln[colon + 1:].strip(WS)])
        for f in r.fields:
            v = f[1]
            if any(c in (0, 10, 13) for c in v):
                if "value-cr-lf-nul" not in r.notes:
                    r.notes.append("value-cr-lf-nul")
                v = bytes(32 if c in (0, 10, 13) else c for c in v)
            if any((c < 32 and c != 9) or c == 127 for c in v):
                if "value-ctl" not in r.notes:
                    r.notes.append("value-ctl")
            f[1] = v.strip(WS)
        fr = _framing(r)
        conn = [t.strip(WS).lower() for nme, v in r.fields if nme == b"connection" for t in v.split(b",")]
        if r.version != b"HTTP/1.1" or b"close" in conn:
            r.may_close = True
        if r.version == b"HTTP/1.0":
            r.feats.add("http10")
        hosts = sum(1 for nme, v in r.fields if nme == b"host")
        if hosts != 1 and r.version == b"HTTP/1.1" or hosts > 1:
            # RFC 9112 3.2 asks for 400 here, but the property statement does not list it: either behaviour passes
            r.notes.append("host-missing-or-repeated")
        if fr[0] == "reject":
            return reqs, fr
        if fr[0] == "len":
            r.feats.add("cl" if fr[1] else "no-body")
            r.body = buf[pos:pos + fr[1]]
            if len(r.body) < fr[1]:
                return reqs, ("incomplete", r.notes)
            pos += fr[1]
        else:
            r.feats.add("chunked")
            rc = ref_chunked(buf, pos)
            r.notes.extend("chunk:" + x for x in rc["lenient"] if "chunk:" + x not in r.notes)
            r.feats |= rc["feats"]
            if rc["status"] == "bad":
                return reqs, ("reject", "chunk:" + rc["cls"])
            if rc["status"] == "incomplete":
                return reqs, ("incomplete", r.notes)
            r.body = rc["body"]
            pos = rc["end"]
        reqs.append(r)


def has_bare_lf(buf):
    i = buf.find(b"\n")
    while i >= 0:
        if i == 0 or buf[i - 1] != 13:
            return True
        i = buf.find(b"\n", i + 1)
    return False


def interpretations(stream):
    out = [ref_http(stream, False)]
    if has_bare_lf(stream):
        out.append(ref_http(stream, True))
    return out


# ------------------------------------------------------------------ observation and matching
_WSRUN = re.compile(rb"[ \t]+")


def obs_of(run):
    return run.requests, H.split_responses(run.written), run.closed, run.crash


def _hdr_dict(pairs, collapse):
    d = {}
    for n, v in pairs:
        v = v.strip(WS)
        if collapse:
            v = _WSRUN.sub(b" ", v)
        d.setdefault(n.lower(), []).append(v)
    return d


def req_matches(o, r):
    method, uri, version, hdrs, body = o
    if method != r.method or uri != r.target or body != r.body:
        return False
    if "version-unsupported" not in r.notes and version != r.version:
        return False
    collapse = "obs-fold" in r.notes
    od = _hdr_dict([(n, v) for n, vs in hdrs for v in vs], collapse)
    rd = _hdr_dict(r.fields, collapse)
    return od == rd


def outcome_ok(obs, reqs, terminal):
    oreqs, codes, closed, crash = obs
    if crash or "garbled" in codes:
        return False
    k = len(oreqs)
    if k > len(reqs):
        return False
    for o, r in zip(oreqs, reqs):
        if not req_matches(o, r):
            return False
    # stopping early (before further requests or before answering later garbage) is fine only after a
    # request that permits closing the connection
    if k >= 1 and reqs[k - 1].may_close and closed and codes == [200] * k:
        return True
    if k < len(reqs):
        return False
    if terminal[0] == "reject":
        return codes == [200] * k + [400] and closed
    return codes == [200] * k


def acceptable(obs, interps):
    for reqs, terminal in interps:
        if outcome_ok(obs, reqs, terminal):
            return True
        for i, r in enumerate(reqs):
            if r.notes and outcome_ok(obs, reqs[:i], ("reject", "tolerated")):
                return True
        if terminal[0] == "incomplete" and terminal[1] and outcome_ok(obs, reqs, ("reject", "tolerated")):
            return True
    return False


RANK = ["ext-quoted-pair", "ext-quoted-string", "ext-token-value", "ext-name", "size-leading-zero", "trailer",
        "cl-leading-zeros", "http10", "chunked", "cl", "no-body"]


def _top_feat(r):
    for f in RANK:
        if f in r.feats:
            return f
    return "plain"


def diagnose(obs, interps):
    """Narrow signature for an observation that matches no acceptable outcome."""
    oreqs, codes, closed, crash = obs
    reqs, terminal = interps[0]
    if crash:
        return "crash:" + crash
    if "garbled" in codes:
        return "garbled-response-stream"
    notes = sorted(set(x for rs, t in interps for r in rs for x in r.notes) |
                   set(x for rs, t in interps if t[0] == "incomplete" for x in t[1]))
    if terminal[0] == "reject" and not notes:
        why = terminal[1]
        k = len(reqs)
        if len(oreqs) > k or (len(codes) > k and codes[k] != 400) or 400 not in codes:
            # was something wrongly handed to the application, or just no answer?
            if len(oreqs) > k:
                return "must-reject-accepted:" + why
            return "must-reject-no-400:" + why
        if codes[-1] != 400:
            return "processed-after-400:" + why
        if not closed:
            return "rejected-but-not-closed:" + why
        return "wrong-request-before-reject:" + why
    if not notes and terminal[0] in ("end", "incomplete"):
        if 400 in codes:
            i = codes.index(400)
            if i < len(reqs):
                return "valid-rejected:" + _top_feat(reqs[i])
            return "valid-rejected:after-%s" % (terminal[0],)
        if len(oreqs) > len(reqs):
            return "extra-request-delivered"
        for o, r in zip(oreqs, reqs):
            if not req_matches(o, r):
                if o[4] != r.body:
                    return "wrong-body:" + _top_feat(r)
                if (o[0], o[1]) != (r.method, r.target):
                    return "wrong-request-line"
                return "wrong-headers"
        if len(oreqs) < len(reqs):
            return "request-not-delivered:" + _top_feat(reqs[len(oreqs)])
        return "wrong-status-sequence"
    # a tolerated construct is involved: name the must-reject reason if there is one, else the first tolerated construct
    if terminal[0] == "reject":
        return "no-acceptable-reading:" + terminal[1]
    return "no-acceptable-reading:" + notes[0]


# ------------------------------------------------------------------ h11 (validates the reference on strict streams)
def h11_parse(stream):
    import h11
    c = h11.Connection(h11.SERVER, max_incomplete_event_size=1 << 20)
    c.receive_data(stream)
    out, cur = [], None
    try:
        while True:
            ev = c.next_event()
            if ev is h11.NEED_DATA or ev is h11.PAUSED:
                break
            if isinstance(ev, h11.Request):
                cur = [bytes(ev.method), bytes(ev.target), b"HTTP/" + bytes(ev.http_version),
                       [(bytes(k), bytes(v)) for k, v in ev.headers], b""]
            elif isinstance(ev, h11.Data):
                cur[4] += bytes(ev.data)
            elif isinstance(ev, h11.EndOfMessage):
                out.append(cur)
                cur = None
                c.send(h11.Response(status_code=200, headers=[("content-length", "0")]))
                c.send(h11.EndOfMessage())
                if c.our_state is h11.DONE and c.their_state is h11.DONE:
                    c.start_next_cycle()
                else:
                    break
            else:
                break
        return out, None
    except h11.RemoteProtocolError as e:
        return out, str(e)


def h11_agrees(stream, reqs, terminal):
    """On a strictly well-formed stream h11 must deliver a prefix of the reference's requests (it stops after a
    request that closes the connection) -- otherwise the *reference* is suspect."""
    got, err = h11_parse(stream)
    if err is not None:
        return "h11 rejects: " + err
    if len(got) > len(reqs):
        return "h11 delivers more requests"
    for g, r in zip(got, reqs):
        if (g[0], g[1], g[2], g[4]) != (r.method, r.target, r.version, r.body):
            return "h11 differs: %r vs %r" % (g, (r.method, r.target, r.version, r.body))
        lowte = lambda d: {k: ([x.lower() for x in v] if k == b"transfer-encoding" else v) for k, v in d.items()}
        if lowte(_hdr_dict(g[3], False)) != lowte(_hdr_dict(r.fields, False)):     # h11 lower-cases the TE value
            return "h11 headers differ: %r vs %r" % (g[3], r.fields)
    if len(got) < len(reqs) and not (got and reqs[len(got) - 1].may_close):
        return "h11 delivers fewer requests (%d < %d)" % (len(got), len(reqs))
    return None


# ------------------------------------------------------------------ corpus
P_RAW = b"abc"
P_CHUNK = b"3\r\nabc\r\n0\r\n\r\n"
P_SMUG = b"0\r\n\r\nGET /smuggled HTTP/1.1\r\nHost: h\r\n\r\n"

CL_FORMS = ["{n}", "+{n}", "{n} ", "0{n}", "{n},{n}", "{n}, {n}", "{n},{m}", "{m}, {n}", "-1", "x", "", "{n}\t", "0x{n}",
            "{n} {n}", "{n}_0", "{n}.0", "{n}e0", "\u0663", "\u00b3", "99999999999999999999", "{n};", "{n},", "0",
            ("{n}", "{n}"), ("{n}", "{m}"), ("{m}", "{n}"), ("0", "{n}")]
TE_FORMS = [None, "chunked", "Chunked", "chunked ", "\tchunked", "identity", "gzip", "gzip, chunked", "chunked, gzip",
            "chunked, chunked", ("chunked", "chunked"), "chunked,", "xchunked", "", "identity, chunked", ("gzip", "chunked")]
CASES = [lambda s: s, lambda s: s.lower(), lambda s: s.upper()]


def _hdr_lines(name, form, n, m, case):
    if form is None:
        return []
    forms = form if isinstance(form, tuple) else (form,)
    out = []
    for f in forms:
        v = f.replace("{n}", str(n)).replace("{m}", str(m))
        out.append(case(name).encode() + b": " + v.encode("utf-8" if "\u0663" in v else "latin-1"))
    return out


def fam_framing():
    for pi, payload in enumerate((P_RAW, P_CHUNK, P_SMUG)):
        n = len(payload)
        m = n - 1 if pi else n + 1
        for ver in (b"HTTP/1.1", b"HTTP/1.0"):
            for ci, case in enumerate(CASES):
                for cli, clf in enumerate([None] + CL_FORMS):
                    for tei, tef in enumerate(TE_FORMS):
                        cl = _hdr_lines("Content-Length", clf, n, m, case)
                        te = _hdr_lines("Transfer-Encoding", tef, n, m, case)
                        for order in (0, 1):
                            if order and not (cl and te):
                                continue
                            hs = [b"Host: h"] + (te + cl if order else cl + te)
                            s = b"POST /first " + ver + CRLF + CRLF.join(hs) + CRLF + CRLF + payload
                            yield "F1", s


def fam_reqline():
    tail = b"\r\nHost: h\r\n\r\n"
    for b in range(256):
        c = bytes([b])
        for line in (c + b"ET / HTTP/1.1", b"G" + c + b"T / HTTP/1.1", b"GE" + c + b" / HTTP/1.1", c + b" / HTTP/1.1",
                     b"GET /" + c + b" HTTP/1.1", b"GET " + c + b"/ HTTP/1.1", b"GET /a" + c + b"b HTTP/1.1", b"GET " + c + b" HTTP/1.1",
                     b"GET" + c + b"/ HTTP/1.1", b"GET /" + c + b"HTTP/1.1",
                     b"GET / HTTP/1." + c, b"GET / HTTP/" + c + b".1", b"GET / HTTP" + c + b"1.1", b"GET / " + c + b"TTP/1.1",
                     b"GET / HTTP/1.1" + c):
            yield "F2", line + tail
    for v in (b"HTTP/1.1", b"HTTP/1.0", b"HTTP/1.2", b"HTTP/2.0", b"HTTP/0.9", b"http/1.1", b"HTTP/1.10", b"HTTP/11", b"HTTP/1",
              b"HTTP/1.", b"HTTP/.1", b"", b"HTTP/1.1 ", b" HTTP/1.1", b"HTTP/1,1", "HTTP/\u0661.1".encode("utf-8")):
        yield "F2", b"GET / " + v + tail
    for line in (b"GET /", b"GET", b"", b" ", b"GET  / HTTP/1.1", b" GET / HTTP/1.1", b"GET / HTTP/1.1 x", b"GET\t/\tHTTP/1.1",
                 b"GET / / HTTP/1.1", b"get / HTTP/1.1", b"OPTIONS * HTTP/1.1", b"CONNECT h:80 HTTP/1.1", b"GET http://h/ HTTP/1.1",
                 b"GET /a%20b?q=1&r=%zz HTTP/1.1", b"GET a HTTP/1.1", b"GET /\"<>\\^`{|}#[] HTTP/1.1"):
        yield "F2", line + tail


def fam_headers():
    for b in range(256):
        c = bytes([b])
        for h in (c + b"-A: v", b"X" + c + b"A: v", b"X-" + c + b": v", c + b": v", b"X-A" + c + b": v",
                  b"X-A: " + c + b"v", b"X-A: v" + c + b"w", b"X-A: v" + c, b"X-A:" + c + b"v"):
            yield "F3", b"GET /first HTTP/1.1\r\nHost: h\r\n" + h + b"\r\n\r\n"
        for h in (b"Content-Length: 3" + c, b"Content-Length: " + c + b"3", b"Content-Length: " + c,
                  b"Content-Length" + c + b": 3", b"Content" + c + b"Length: 3"):
            yield "F3", b"POST /first HTTP/1.1\r\nHost: h\r\n" + h + b"\r\n\r\n" + P_RAW
        for h in (b"Transfer-Encoding: chunked" + c, b"Transfer-Encoding: " + c + b"chunked", b"Transfer-Encoding: chun" + c + b"ed",
                  b"Transfer-Encoding" + c + b": chunked"):
            yield "F3", b"POST /first HTTP/1.1\r\nHost: h\r\n" + h + b"\r\n\r\n" + P_CHUNK


CH_HEAD = b"POST /first HTTP/1.1\r\nHost: h\r\nTransfer-Encoding: chunked\r\n\r\n"


def fam_chunks(tier):
    from checks import C22
    seqs = [()] + [(a,) for a in C22.SIZES] + [(a, b) for a in C22.SIZES for b in C22.SIZES]
    for seq in seqs:
        for fi, fmt in enumerate(C22.FMTS):
            for ext in C22.EXTS:
                for tr in C22.TRAILERS:
                    parts, body = C22.build(seq, fmt, ext, b"00" if fi == 2 else b"0", tr, b"", 0)
                    yield "F4v", CH_HEAD + b"".join(b for _, b in parts)
    bases = [x for i, x in enumerate(C22.BASES) if i % 8 in (0, 3, 6)][:24]
    for seq, ext, tr in bases:
        parts, body = C22.build(seq, "x", ext, b"0", tr, b"", 0)
        enc = b"".join(b for _, b in parts)
        seen = {enc}
        for p in range(len(enc)):
            cands = [enc[:p] + bytes([r]) + enc[p + 1:] for r in C22.REPL] + [enc[:p] + enc[p + 1:]]
            if enc[p:p + 2] == CRLF:
                cands.append(enc[:p] + enc[p + 2:])
            for mname in cands:
                if mname not in seen:
                    seen.add(mname)
                    yield "F4m", CH_HEAD + mname
    if tier != "quick":
        for seq, ext, tr in bases[:8]:
            parts, body = C22.build(seq, "x", ext, b"0", tr, b"", 0)
            enc = b"".join(b for _, b in parts)
            seen = set()
            R2 = b"\r\n; g\x00"
            for p in range(len(enc)):
                for q in range(p + 1, len(enc)):
                    for r1 in R2:
                        for r2 in R2:
                            mname = enc[:p] + bytes([r1]) + enc[p + 1:q] + bytes([r2]) + enc[q + 1:]
                            if mname not in seen and mname != enc:
                                seen.add(mname)
                                yield "F4m2", CH_HEAD + mname


def fam_structure():
    rl = b"POST /first HTTP/1.1"
    blocks = {
        "fold-x": [b"Host: h", b"X-A: a", b" b"],
        "fold-tab": [b"Host: h", b"X-A: a  ", b"\t\t b  "],
        "fold-empty": [b"Host: h", b"X-A: a", b" "],
        "fold-twice": [b"Host: h", b"X-A: a", b" b", b"\tc"],
        "fold-cl": [b"Host: h", b"Content-Length:", b" 3"],
        "fold-cl-digits": [b"Host: h", b"Content-Length: 3", b" 4"],
        "fold-cl-split": [b"Host: h", b"Content-Length: 1", b" "],
        "fold-te": [b"Host: h", b"Transfer-Encoding:", b" chunked"],
        "fold-te2": [b"Host: h", b"Transfer-Encoding: chun", b" ked"],
        "fold-first": [b" X: y", b"Host: h"],
        "fold-first-cl": [b" Content-Length: 3", b"Host: h"],
        "fold-hides-cl": [b"Host: h", b"X-A: a", b" Content-Length: 3"],
        "nocolon": [b"Host h"],
        "nocolon-last": [b"Host: h", b"Content-Length 3"],
        "empty-name": [b": v", b"Host: h"],
        "colon-only": [b":"],
        "ws-colon": [b"Host : h"],
        "ws-colon-cl": [b"Host: h", b"Content-Length : 3"],
        "tab-colon-te": [b"Host: h", b"Transfer-Encoding\t: chunked"],
        "dup-host": [b"Host: h", b"Host: i"],
        "close": [b"Host: h", b"Connection: close"],
        "close-list": [b"Host: h", b"Connection: keep-alive, Close"],
        "keep-alive": [b"Host: h", b"Connection: keep-alive"],
        "cl3": [b"Host: h", b"Content-Length: 3"],
        "te": [b"Host: h", b"Transfer-Encoding: chunked"],
        "te-te": [b"Host: h", b"TE: trailers", b"Transfer-Encoding: chunked"],
        "many-cl-case": [b"content-length: 3", b"CONTENT-LENGTH: 3"],
        "cl-underscore": [b"Host: h", b"Content_Length: 3"],
        "value-lf-cl": [b"Host: h\nContent-Length: 3"],
        "value-lf-te": [b"Host: h\nTransfer-Encoding: chunked"],
        "value-cr-cl": [b"Host: h\rContent-Length: 3"],
        "lf-lf": [b"Host: h\n"],
    }
    for lead in (b"", CRLF, CRLF + CRLF, CRLF * 3, b"\n", b"\r"):
        for ver in (b"", ):
            for nm, hs in blocks.items():
                for payload in (b"", P_RAW, P_CHUNK):
                    yield "F5", lead + rl + CRLF + CRLF.join(hs) + CRLF + CRLF + payload
    # a body that ends exactly where the stream ends (REQ2 becomes part of the body)
    for pl in (b"", b"abc"):
        yield "F5", b"POST /first HTTP/1.1\r\nHost: h\r\nContent-Length: %d\r\n\r\n" % (len(pl) + len(REQ2)) + pl
    # bare-LF line ends
    for s in (b"POST /first HTTP/1.1\nHost: h\nContent-Length: 3\n\nabc",
              b"POST /first HTTP/1.1\nHost: h\nContent-Length: 3\r\n\r\nabc",
              b"POST /first HTTP/1.1\r\nHost: h\nContent-Length: 3\n\r\nabc",
              b"POST /first HTTP/1.1\r\nHost: h\r\nContent-Length: 3\n\nabc",
              b"POST /first HTTP/1.1\r\nHost: h\r\nTransfer-Encoding: chunked\r\n\r\n3\nabc\n0\n\n",
              b"POST /first HTTP/1.1\r\nHost: h\r\nTransfer-Encoding: chunked\r\n\r\n3\r\nabc\r\n0\r\n\n",
              b"POST /first HTTP/1.1\r\nHost: h\r\nTransfer-Encoding: chunked\r\n\r\n3\r\nabc\r\n0\n\r\n",
              b"POST /first HTTP/1.1\r\nHost: h\r\nTransfer-Encoding: chunked\r\n\r\n3\r\nabc\n0\r\n\r\n",
              b"GET /first HTTP/1.1\r\nHost: h\r\n\n",
              b"GET /first HTTP/1.1\r\r\nHost: h\r\n\r\n"):
        yield "F5", s


def fam_sweep2():
    """thorough: two simultaneous byte substitutions over a 24-byte alphabet."""
    A = b"\x00\t\n\x0b\r !\"(,/09:;=@A\\z\x7f\x80\xb0\xb1\xff"
    for a in A:
        for b in A:
            x, y = bytes([a]), bytes([b])
            for line in (b"G" + x + b"T /" + y + b" HTTP/1.1", b"GET" + x + b"/" + y + b"HTTP/1.1", b"GET /" + x + b" HTTP/1." + y):
                yield "F2b", line + b"\r\nHost: h\r\n\r\n"
            for h, pl in ((b"Content-Length: " + x + b"3" + y, P_RAW), (b"Content-Length" + x + b":" + y + b"3", P_RAW),
                          (b"Transfer-Encoding: " + x + b"chunked" + y, P_CHUNK), (b"Transfer-Encoding" + x + b":" + y + b"chunked", P_CHUNK),
                          (b"X" + x + b": v" + y, b""), (b"Content-Length: 3" + x + y + b"Transfer-Encoding: chunked", P_CHUNK),
                          (b"Content-Length: 3" + x + y + b"Content-Length: 4", P_RAW)):
                yield "F3b", b"POST /first HTTP/1.1\r\nHost: h\r\n" + h + b"\r\n\r\n" + pl


def corpus(tier):
    seen = set()
    fams = [fam_framing(), fam_reqline(), fam_headers(), fam_chunks(tier), fam_structure()]
    if tier != "quick":
        fams.append(fam_sweep2())
    for g in fams:
        for fam, s in g:
            if s not in seen:
                seen.add(s)
                yield fam, s


# ------------------------------------------------------------------ judging
def verdict_class(interps):
    reqs, t = interps[0]
    notes = any(r.notes for rs, _ in interps for r in rs) or any(tt[0] == "incomplete" and tt[1] for _, tt in interps)
    if t[0] == "reject":
        base = "must-reject:" + t[1].split(":")[0] if not notes else "choice+reject"
    elif notes:
        base = "choice"
    else:
        base = "strict-" + t[0]
    return base


def judge(stream, bytewise):
    """-> (violations, verdict class, shape, nontrivial?)"""
    full = stream + REQ2
    interps = interpretations(full)
    segs = [full[i:i + 1] for i in range(len(full))] if bytewise else [full]
    run = H.run_stream(segs, "imm")
    obs = obs_of(run)
    vc = verdict_class(interps)
    shape = "%dreq:%s:%s" % (len(obs[0]), ",".join(str(c) for c in obs[1]) or "-", "closed" if obs[2] else "open")
    out = []
    if not acceptable(obs, interps):
        sig = "HTTPChannel:" + diagnose(obs, interps)
        out.append((sig, {"stream": full, "bytewise": bytewise, "observed": shape,
                          "delivered": repr(obs[0])[:600],
                          "reference": [("%d requests" % len(r), t[0], t[1] if len(t) > 1 else "") for r, t in interps]}))
    return out, vc, shape, interps


def strict(interps):
    reqs, t = interps[0]
    return len(interps) == 1 and t[0] == "end" and not any(r.notes for r in reqs)


NSH = 48


def shards(tier, seed):
    return list(range(NSH))


def run_shard(shard, tier, seed):
    st = Stats()
    for i, (fam, s) in enumerate(corpus(tier)):
        if i % NSH != shard:
            continue
        for bw in (False, True):
            st.evaluations += 1
            v, vc, shape, interps = judge(s, bw)
            st.outcome(vc + "->" + shape)
            for sig, det in v:
                det["family"] = fam
                st.violation(sig, det, {"stream": s, "bytewise": bw})
        if not vc.startswith("strict"):
            st.nt(s)
        elif strict(interps):
            st.count("strict_streams")
            why = h11_agrees(s + REQ2, *interps[0])
            if why:
                # the oracle itself is in doubt: never report this as a Twisted violation
                raise AssertionError("reference parser and h11 disagree on a well-formed stream %r: %s" % (s + REQ2, why))
            st.count("h11_agreed")
        if i % 977 == 0:
            st.sample({"family": fam, "stream": s, "reference": vc, "observed": shape}, 3)
    return st


def replay(w):
    v, vc, shape, interps = judge(w["stream"], w["bytewise"])
    return v
