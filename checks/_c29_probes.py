"""Standalone probes (no harness) for the C29 findings.  Run:  /venv/bin/python /verif/checks/_c29_probes.py 1|2|3
Needs only the stand-in `priority` package on sys.path (the real one is not installable here)."""
import os
import sys

sys.path.insert(0, os.path.join(os.path.dirname(os.path.dirname(os.path.abspath(__file__))), "vendor", "priority_stub"))

import h2.config, h2.connection, h2.settings  # noqa: E402
from twisted.internet.task import Clock  # noqa: E402
from twisted.internet.testing import StringTransport  # noqa: E402
from twisted.web import http  # noqa: E402
from twisted.web._http2 import H2Connection  # noqa: E402

IWS = h2.settings.SettingCodes.INITIAL_WINDOW_SIZE
GET = [(b":method", b"GET"), (b":path", b"/"), (b":scheme", b"https"), (b":authority", b"x")]


class IterClock(Clock):
    def iterate(self, n=1):
        """n reactor iterations; calls scheduled during an iteration run in the next one (Clock.advance(0) would spin)."""
        for _ in range(n):
            for c in [c for c in list(self.calls) if c.getTime() <= self.seconds()]:
                if c in self.calls:
                    self.calls.remove(c)
                    c.called = 1
                    c.func(*c.args, **c.kw)


def setup(window):
    reqs = []

    class R(http.Request):
        def process(self):
            reqs.append(self)

    clock = IterClock()
    srv = H2Connection(reactor=clock)
    srv.requestFactory = R
    t = StringTransport()
    srv.makeConnection(t)
    cl = h2.connection.H2Connection(config=h2.config.H2Configuration(client_side=True, header_encoding=None))
    cl.initiate_connection()
    cl.update_settings({IWS: window})
    cl.send_headers(1, GET, end_stream=True)
    srv.dataReceived(cl.data_to_send())

    def pump():
        ev = cl.receive_data(t.value())
        t.clear()
        srv.dataReceived(cl.data_to_send())
        return [type(e).__name__ + (":" + e.data.decode() if hasattr(e, "data") else "") for e in ev]

    pump()
    return clock, srv, cl, reqs[0], pump


def probe1():
    """SETTINGS lowers INITIAL_WINDOW_SIZE below what was already sent -> negative window -> the send loop dies."""
    clock, srv, cl, req, pump = setup(2)
    req.write(b"ABCD")
    clock.iterate(2)
    print(pump(), "window", srv.conn.local_flow_control_window(1))          # AB sent, window 0, CD queued
    cl.update_settings({IWS: 1})
    srv.dataReceived(cl.data_to_send())                                     # window -1
    try:
        clock.iterate()
    except Exception as e:
        print("send loop raised:", type(e).__name__, e)
    cl.increment_flow_control_window(100, 1)
    srv.dataReceived(cl.data_to_send())
    req.finish()
    clock.iterate(5)
    print("after WINDOW_UPDATE(+100) and finish():", pump(), "queue", list(srv._outboundStreamQueues[1]), "pending calls", len(clock.calls))
    # expected: DataReceived:CD + StreamEnded; actual: nothing, 'C' is lost, no call pending - every stream of the connection is stuck


def probe2():
    """The window is opened by SETTINGS (INITIAL_WINDOW_SIZE increase): a producer paused by flowControlBlocked() is never resumed."""
    class P:
        paused = False

        def pauseProducing(self):
            self.paused = True

        def resumeProducing(self):
            self.paused = False

        def stopProducing(self):
            pass

    clock, srv, cl, req, pump = setup(1)
    p = P()
    req.registerProducer(p, True)
    req.write(b"A")
    clock.iterate(2)
    print(pump(), "producer paused:", p.paused)
    cl.update_settings({IWS: 10})
    srv.dataReceived(cl.data_to_send())
    clock.iterate(5)
    print("after SETTINGS INITIAL_WINDOW_SIZE=10: window", srv.conn.local_flow_control_window(1), "producer paused:", p.paused)
    # expected: resumed (window 9); actual: still paused - RemoteSettingsChanged is ignored by H2Connection.dataReceived


def probe3():
    """Data written while the window is exhausted and the send loop is parked is not sent when WINDOW_UPDATE arrives."""
    clock, srv, cl, req, pump = setup(1)
    req.write(b"A")
    clock.iterate(3)
    print(pump(), "pending calls", len(clock.calls))                         # A sent, loop parked on _sendingDeferred
    req.write(b"B")                                                          # window 0: queued, stream stays blocked
    cl.increment_flow_control_window(10, 1)
    cl.increment_flow_control_window(10)
    srv.dataReceived(cl.data_to_send())
    clock.iterate(5)
    print("after WINDOW_UPDATE(+10):", pump(), "window", srv.conn.local_flow_control_window(1), "queue", list(srv._outboundStreamQueues[1]))
    req.write(b"C")
    clock.iterate(5)
    print("after the next write:", pump())
    # expected: DataReceived:B after the WINDOW_UPDATE; actual: nothing until the next write()/finish() wakes the loop


if __name__ == "__main__":
    {"1": probe1, "2": probe2, "3": probe3}[sys.argv[1]]()
