"""C02 chaining depth: every chain / await-loop shape at lengths N, 2N (and 10^5), default recursion limit.

For each shape the real Deferreds are built and fired; a probe callback on every link (or the loop body
of the generator / coroutine) measures the interpreter stack depth relative to the harness frame.  The
oracle: the chain completes with the reference result (so no RecursionError was raised or swallowed into
a Failure), every link's probe ran exactly once, and the maximum depth is the same at every length.
"""
import sys
import warnings

from twisted.internet.defer import Deferred, ensureDeferred, fail, inlineCallbacks, succeed
from twisted.python.failure import Failure

from mc.runner import Stats

ID = "C02"
LEVEL = "exploration"
TECHNIQUE = "exhaustive shape enumeration with stack-depth invariance across lengths"
RULE = ("every shape in {chain: link attached as callback / as errback} x {fired outer-first, inner-first, inner-first "
        "with the innermost paused until the end, every link paused then unpaused front-to-back / back-to-front} x "
        "{final result success, failure}  plus  {inlineCallbacks generator, async def via ensureDeferred} x {awaits "
        "pre-fired successes, pre-fired failures caught by try/except, alternating, Deferreds of nested inlineCallbacks "
        "calls that already finished} x {loop entered at start, loop entered after resumption from an unfired "
        "Deferred}; each shape is run at every length of the tier with sys.getrecursionlimit() == 1000. "
        "non-trivial = (shape, length) pairs in which all `length` links/awaits were resolved inside ONE top-level "
        "call (the situation in which a recursive implementation would need `length` frames)")
BOUNDS = {"quick": "lengths 1500 and 3000 (recursion limit 1000)", "thorough": "lengths 1500, 3000 and 100000"}
ASSUMPTIONS = [
    "the length quantifier is covered by depth-invariance at the listed lengths (all above the recursion limit), not by proof",
    "stack usage is measured in Python frames (sys._getframe walk) from inside every link's callback / every loop iteration",
    "chains are built with callbacks returning the next Deferred (the statement's shape); chainDeferred is documented as recursive and is not part of the property",
]
MIN = {"quick": {"evaluations": 60, "nontrivial": 40, "outcomes": 2},
       "thorough": {"evaluations": 90, "nontrivial": 60, "outcomes": 2}}

CHAIN_MODES = ("outer-first", "inner-first", "inner-first-paused", "all-paused-unpause-front-to-back",
               "all-paused-unpause-back-to-front", "outer-first-late-observer", "outer-first-late-observer-on-all")
LINKS = ("callback", "errback")
RESULTS = ("ok", "fail")
FLAVOURS = ("inlineCallbacks", "coroutine")
AWAITS = ("ok", "fail", "alternating", "nested")
STARTS = ("immediate", "resumed")


class E(Exception):
    pass


def depth():
    f = sys._getframe(1)
    n = 0
    while f is not None:
        n += 1
        f = f.f_back
    return n


class Probe:
    def __init__(self):
        self.base = 0
        self.count = 0
        self.max = 0
        self.in_trigger = False
        self.trigger_count = 0
        self.observed = 0

    def hit(self):
        d = depth() - self.base
        self.count += 1
        if d > self.max:
            self.max = d
        if self.in_trigger:
            self.trigger_count += 1

    def cb(self, r):
        self.hit()
        return r

    def observe(self, r):
        """Pass-through callback that measures the depth without counting as a link."""
        d = depth() - self.base
        self.observed += 1
        if d > self.max:
            self.max = d
        return r


def describe(r):
    if isinstance(r, Failure):
        if r.check(RecursionError):
            return ("RecursionError",)
        if r.check(E):
            return ("fail", r.value.args[0])
        return ("failure", type(r.value).__name__)
    return ("ok", r)


# ------------------------------------------------------------------ chains

def run_chain(mode, link, result, n):
    """Build d_0..d_{n-1}; d_i's callback (or errback) returns d_{i+1}.  Returns (outcome, probe)."""
    p = Probe()
    p.base = depth()
    ds = [Deferred() for _ in range(n)]
    for i in range(n - 1):
        nxt = ds[i + 1]
        if link == "callback":
            ds[i].addCallback(lambda _, nxt=nxt: nxt)
        else:
            ds[i].addErrback(lambda _, nxt=nxt: nxt)
        ds[i].addBoth(p.cb)
    ds[n - 1].addBoth(p.cb)
    final = []
    ds[0].addBoth(final.append)     # consumes the result (returns None)

    def fire_link(i):
        if link == "callback":
            ds[i].callback(("link", i))
        else:
            ds[i].errback(E(("link", i)))

    def fire_last():
        if result == "ok":
            ds[n - 1].callback("done")
        else:
            ds[n - 1].errback(E("boom"))

    if mode == "outer-first":
        for i in range(n - 1):
            fire_link(i)
        p.in_trigger = True
        fire_last()
    elif mode in ("outer-first-late-observer", "outer-first-late-observer-on-all"):
        # a pass-through callback added to a link *after* the previous Deferred started waiting on it,
        # so the link still has callbacks of its own behind the point where the waiter is resumed
        # (round-9 miss C02-k); "-on-all" adds it after every link fired, as a separate pass
        if mode == "outer-first-late-observer":
            for i in range(n - 1):
                fire_link(i)
                ds[i + 1].addBoth(p.observe)
        else:
            for i in range(n - 1):
                fire_link(i)
            for i in range(n - 1, 0, -1):
                ds[i].addBoth(p.observe)
                ds[i].addBoth(p.observe)
        p.in_trigger = True
        fire_last()
    elif mode == "inner-first":
        fire_last()
        p.in_trigger = False        # nothing deep can happen: every link steals a ready result
        for i in range(n - 2, -1, -1):
            fire_link(i)
    elif mode == "inner-first-paused":
        ds[n - 1].pause()
        fire_last()
        for i in range(n - 2, -1, -1):
            fire_link(i)
        p.in_trigger = True
        ds[n - 1].unpause()
    elif mode == "all-paused-unpause-front-to-back":
        for d in ds:
            d.pause()
        for i in range(n - 1):
            fire_link(i)
        fire_last()
        for i in range(n - 1):
            ds[i].unpause()
        p.in_trigger = True
        ds[n - 1].unpause()
    elif mode == "all-paused-unpause-back-to-front":
        for d in ds:
            d.pause()
        for i in range(n - 1):
            fire_link(i)
        fire_last()
        for i in range(n - 1, -1, -1):
            ds[i].unpause()
    else:
        raise ValueError(mode)
    p.in_trigger = False
    expected = ("ok", "done") if result == "ok" else ("fail", "boom")
    got = describe(final[0]) if len(final) == 1 else ("fired-%d-times" % len(final),)
    return got, expected, p


# ------------------------------------------------------------------ generator / coroutine loops

@inlineCallbacks
def _nested_done(i):
    x = yield succeed(i)
    return x


def make_awaitable(kind, i):
    if kind == "ok" or (kind == "alternating" and i % 2 == 0):
        return succeed(i), ("ok", i)
    if kind == "nested":
        return _nested_done(i), ("ok", i)
    return fail(E(i)), ("fail", i)


def run_loop(flavour, awaits, start, n):
    p = Probe()
    p.base = depth()
    gate = Deferred() if start == "resumed" else None
    mism = []

    def body_check(i, exp, got):
        if exp != got and len(mism) < 3:
            mism.append((i, exp, got))

    if flavour == "inlineCallbacks":
        @inlineCallbacks
        def f():
            if gate is not None:
                yield gate
            for i in range(n):
                d, exp = make_awaitable(awaits, i)
                try:
                    x = yield d
                    got = ("ok", x)
                except E as e:
                    got = ("fail", e.args[0])
                p.hit()
                body_check(i, exp, got)
            return "done"
        p.in_trigger = gate is None
        r = f()
    else:
        async def g():
            if gate is not None:
                await gate
            for i in range(n):
                d, exp = make_awaitable(awaits, i)
                try:
                    x = await d
                    got = ("ok", x)
                except E as e:
                    got = ("fail", e.args[0])
                p.hit()
                body_check(i, exp, got)
            return "done"
        p.in_trigger = gate is None
        r = ensureDeferred(g())
    final = []
    r.addBoth(final.append)
    if gate is not None:
        p.in_trigger = True
        gate.callback(None)
    p.in_trigger = False
    got = describe(final[0]) if len(final) == 1 else ("fired-%d-times" % len(final),)
    if mism and got == ("ok", "done"):
        got = ("wrong-value-inside", mism[0])
    return got, ("ok", "done"), p


# ------------------------------------------------------------------ driver

def all_shapes():
    out = []
    for m in CHAIN_MODES:
        for l in LINKS:
            for r in RESULTS:
                out.append(["chain", m, l, r])
    for f in FLAVOURS:
        for a in AWAITS:
            for s in STARTS:
                out.append(["loop", f, a, s])
    return out


def lengths(tier):
    return [1500, 3000] if tier == "quick" else [1500, 3000, 100000]


def shards(tier, seed):
    return all_shapes()


def run_shape(shape, n):
    """-> (violations, got, probe)"""
    name = ":".join(shape)
    comp = "Deferred-chain" if shape[0] == "chain" else shape[1] + "-await-loop"
    short = ":".join(shape[1:]) if shape[0] == "chain" else ":".join(shape[2:])
    bad = []
    with warnings.catch_warnings():
        warnings.simplefilter("ignore")
        try:
            if shape[0] == "chain":
                got, exp, p = run_chain(shape[1], shape[2], shape[3], n)
            else:
                got, exp, p = run_loop(shape[1], shape[2], shape[3], n)
        except RecursionError:
            bad.append(("%s:RecursionError-escaped:%s" % (comp, short), "length %d" % n))
            return bad, ("RecursionError",), None
    if got == ("RecursionError",):
        bad.append(("%s:RecursionError:%s" % (comp, short), "length %d: result is a RecursionError failure" % n))
    elif got != exp:
        bad.append(("%s:wrong-final-result:%s" % (comp, short), "length %d: got %r, reference %r" % (n, got, exp)))
    if p.count != n and not bad:
        bad.append(("%s:probe-count:%s" % (comp, short), "length %d: %d links/iterations observed" % (n, p.count)))
    if shape[0] == "chain" and "late-observer" in shape[1] and not bad:
        want = (n - 1) * (2 if shape[1].endswith("-on-all") else 1)
        if p.observed != want:
            bad.append(("%s:late-callback-count:%s" % (comp, short),
                        "length %d: %d of %d late callbacks ran" % (n, p.observed, want)))
    return bad, got, p


def run_shard(shard, tier, seed):
    st = Stats()
    if sys.getrecursionlimit() > 1000:
        sys.setrecursionlimit(1000)
    shape = list(shard)
    comp = "Deferred-chain" if shape[0] == "chain" else shape[1] + "-await-loop"
    short = ":".join(shape[1:]) if shape[0] == "chain" else ":".join(shape[2:])
    depths = []
    for n in lengths(tier):
        st.evaluations += 1
        bad, got, p = run_shape(shape, n)
        st.outcome(got[0])
        for sig, detail in bad:
            st.violation(sig, detail, {"shape": shape, "lengths": [n]})
        if p is not None:
            depths.append((n, p.max))
            if p.trigger_count == n:
                st.nt((tuple(shape), n))
            st.count("max_depth_seen_max", 0)
            st.counters["max_depth_seen_max"] = max(st.counters.get("max_depth_seen_max", 0), p.max)
        if bad:
            break
    if len(depths) >= 2:
        n0, d0 = depths[0]
        for n1, d1 in depths[1:]:
            if d1 > d0:
                st.violation("%s:stack-grows-with-length:%s" % (comp, short),
                             "max relative depth %d at length %d, %d at length %d" % (d0, n0, d1, n1),
                             {"shape": shape, "lengths": [n0, n1]})
                break
    st.sample({"shape": shape, "depth_by_length": depths})
    return st


def replay(w):
    if sys.getrecursionlimit() > 1000:
        sys.setrecursionlimit(1000)
    shape = list(w["shape"])
    comp = "Deferred-chain" if shape[0] == "chain" else shape[1] + "-await-loop"
    short = ":".join(shape[1:]) if shape[0] == "chain" else ":".join(shape[2:])
    out = []
    depths = []
    for n in w["lengths"]:
        bad, got, p = run_shape(shape, n)
        out.extend(bad)
        if p is not None:
            depths.append((n, p.max))
    if len(depths) == 2 and depths[1][1] > depths[0][1]:
        out.append(("%s:stack-grows-with-length:%s" % (comp, short),
                    "max relative depth %d at length %d, %d at length %d" % (depths[0][1], depths[0][0], depths[1][1], depths[1][0])))
    return out
