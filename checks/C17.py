"""C17 TLS layer (twisted.protocols.tls.TLSMemoryBIOProtocol / BufferingTLSTransport).

Explicit-state BFS over two REAL TLS protocol instances (client + server, built by the real
TLSMemoryBIOFactory) joined by two in-memory transports whose pending bytes the explorer delivers.
pyOpenSSL is absent from the sandbox, so ``OpenSSL.SSL.Connection`` is a deterministic *model TLS
engine* (vendor/openssl_stub, on sys.path for this module only) - the trusted base of this check.
"""
import os
import sys
import warnings

_STUB = os.path.join(os.path.dirname(os.path.dirname(os.path.abspath(__file__))), "vendor", "openssl_stub")
if _STUB not in sys.path:
    sys.path.insert(0, _STUB)
warnings.filterwarnings("ignore", message=".*service_identity.*")

from mc.bfs import bfs  # noqa: E402
from mc.runner import Stats  # noqa: E402

ID = "C17"
LEVEL = "model_checking"
TECHNIQUE = ("explicit-state BFS over two real TLSMemoryBIOProtocol endpoints on a deterministic model TLS engine; the engine "
             "model is itself checked against the local libssl by a BFS over API call sequences, and every model history is "
             "re-executed with real OpenSSL as the engine")
RULE = ("Part M: BFS over histories of: application write on either side (direct, or from a registered push / pull producer; "
        "before, during and after the handshake, also after loseConnection), registerProducer / unregisterProducer, "
        "loseConnection by either side, delivery of a prefix of one direction's pending encrypted bytes (all / first byte / "
        "first half / first record), one reactor iteration of either endpoint's clock (flushes _AggregateSmallWrites, runs one "
        "pull-producer step), the underlying transport reporting connectionLost once the TLS layer asked it to close, and TCP "
        "EOF reaching the other endpoint afterwards.  Every transition runs the real tls.py code; after every transition a "
        "stream reference (lists of written chunks) decides prefix-exactness, no bytes written after loseConnection, at most one "
        "connectionLost and nothing after it; in every quiescent state it decides completeness, exactly one connectionLost per "
        "side and both transports closed.  Configurations: engine handshake shape (TLS 1.3-like 3 flights + post-handshake "
        "ticket, TLS 1.2-like 4 flights), EOF error flavour (SysCallError / OpenSSL-3 Error), record fragment size, a 40000-byte "
        "Certificate flight, per-side write mode, start from scratch or from the established connection, delivery-cut menu.  "
        "Part C (trusted base): BFS over sequences of do_handshake/send/recv/shutdown/bio_shutdown/move-all/move-one-byte on a "
        "client+server pair, executed on the model engine and on real OpenSSL (libssl via cryptography's cffi bindings) in lock "
        "step; return/exception classes, the error reasons tls.py depends on and the shutdown/finished flags must agree (a "
        "deviation is a harness error).  Part R: every history that reaches a distinct canonical state of part M (to a smaller "
        "depth) is re-executed with real OpenSSL as the engine under the same oracle (evaluations = such histories).  "
        "non-trivial = distinct canonical states in which a write is buffered waiting for the handshake, a partial record sits "
        "in an engine, a producer is paused, or exactly one close_notify has been sent")
BOUNDS = {"quick": "<= 2 writes per side (3-byte chunks). Model-engine BFS depth (from scratch / from the established connection): "
                   "10 / 9 with record-boundary cuts, 8 / 7 with first-byte + first-half cuts (one level less with producers on "
                   "both sides); engines 1.3+SysCallError-EOF (5 write-mode pairs) and 1.2+Error-EOF (3 pairs); 2-byte record "
                   "fragments; 40000-byte Certificate flight depth 7. Model-vs-libssl conformance BFS depth 10 / 6. Real-OpenSSL "
                   "re-execution of all model histories to depth 8 / 7",
          "thorough": "<= 2 writes per side. Model-engine BFS depth 12 / 11 (record cuts), 9 / 8 (byte + half cuts), 8 / 7 (all four "
                      "cuts), one level less with producers on both sides; all 9 write-mode pairs for 1.3+SysCallError and "
                      "1.2+Error, direct/direct for the two other EOF flavours; conformance depth 12 / 8; real-OpenSSL "
                      "re-execution to depth 9 / 8"}
ASSUMPTIONS = [
    "trusted base: the model TLS engine in vendor/openssl_stub/OpenSSL/SSL.py stands in for pyOpenSSL+OpenSSL (pyOpenSSL cannot be "
    "installed). Part C shows it agrees with the local libssl on every explored API call sequence that respects tls.py's usage "
    "protocol (after bio_shutdown only recv; an engine that raised a fatal error is not used again); the SysCallError EOF "
    "flavour of OpenSSL 1.1.1 and pyOpenSSL's own glue are transcribed from their sources, not executed",
    "completeness is demanded for bytes a side wrote before its own loseConnection when the receiver never called "
    "loseConnection, or called it later and not abortively (loseConnection before the handshake finished with nothing written "
    "aborts by design), and for everything a non-aborting writer's engine encrypted when the reader did not abort; bytes racing "
    "with the peer's earlier close, and producer writes made after loseConnection, may or may not arrive (TLS close semantics / "
    "the statement is silent) but must never be reordered, duplicated or corrupted",
    "network model: bytes written before the transport was asked to close stay deliverable; connectionLost is delivered to an "
    "endpoint after it asked to close, or as EOF once the peer's transport is closed and everything it sent was delivered; a "
    "transport stops its registered producer before reporting connectionLost (as abstract.FileDescriptor does)",
    "canonical state = engine state of both ends, the TLS protocol's documented/private buffers read defensively, transports, "
    "pending bytes, clocks, producer flags and the reference streams; private state is never used for a verdict",
]
LEVEL_TEXT = ("Bounded-exhaustive: every interleaving of the listed events up to the stated depth is executed on the real "
              "TLSMemoryBIOProtocol/BufferingTLSTransport and checked against a stream reference; the TLS engine underneath is a "
              "model that is itself checked state-by-state against the local OpenSSL, and a slice is re-run on real OpenSSL.")
LEVEL_NOTE = ("The deciding runs use a model of OpenSSL's memory-BIO API (trusted base, conformance-checked against libssl through "
              "cffi, pyOpenSSL itself absent). Bounded: <= 2 writes per side and the stated depths.")
MIN = {"quick": {"states": 470000, "nontrivial": 380000, "outcomes": 15, "evaluations": 54000,
                 "conformance_transitions": 22000, "real_openssl_histories": 54000},
       "thorough": {"states": 2700000, "nontrivial": 2200000, "outcomes": 15, "evaluations": 178000,
                    "conformance_transitions": 100000, "real_openssl_histories": 178000}}
ENGINE = "mc.bfs"

MODES = ("direct", "push", "pull")
PEER = {"c": "s", "s": "c"}


# ------------------------------------------------------------------------------------------------
# harness objects
# ------------------------------------------------------------------------------------------------
def _step_clock_class():
    from twisted.internet.task import Clock

    class StepClock(Clock):
        """One reactor iteration = the calls that were due when the iteration started."""

        def due(self):
            return [c for c in self.getDelayedCalls() if c.getTime() <= self.seconds()]

        def step(self):
            for c in self.due():
                if c.active():
                    f, a, kw = c.func, c.args, c.kw
                    c.cancel()
                    f(*a, **kw)
    return StepClock


class Side:
    def __init__(self, name):
        self.name = name
        self.nw = 0                # application writes issued so far
        self.lose_idx = None       # global index of the loseConnection event
        self.abortive = False      # reference: loseConnection before the handshake finished with nothing written
        self.closed = False        # harness delivered connectionLost to the TLS protocol
        self.closed_by = None
        self.delivered = 0         # bytes of the peer's output already delivered to this side
        self.registered = False
        self.was_registered = False
        self.prod = None
        # reference streams
        self.stream = []           # [(chunk, "req" | "opt", phase)] in write order = expected receive order at the peer
        self.forbidden = []        # chunks written after loseConnection without a producer
        self.void = []             # chunks written after this side's connection was already gone


_NS = None
_CUR = []   # stack of states currently being driven (for the log observer)


def _ns():
    """Harness classes (built once; they need twisted imports)."""
    global _NS
    if _NS is not None:
        return _NS
    from twisted.internet.protocol import Factory, Protocol
    from twisted.internet.interfaces import (IOpenSSLClientConnectionCreator, IOpenSSLServerConnectionCreator,
                                             IPushProducer, IPullProducer)
    from twisted.internet.task import Cooperator
    from twisted.internet import task
    from twisted.internet.error import ConnectionDone, ConnectionLost, ConnectionAborted
    from twisted.python.failure import Failure
    from twisted.protocols.tls import TLSMemoryBIOFactory
    from zope.interface import implementer
    from OpenSSL import SSL
    from mc.net import MemTransport

    class Recorder(Protocol):
        def __init__(self, side):
            self.side = side
            self.data = bytearray()
            self.made = 0
            self.lost = 0
            self.after_lost = 0

        def connectionMade(self):
            self.made += 1

        def dataReceived(self, data):
            if self.lost:
                self.after_lost += 1
            self.data += data

        def connectionLost(self, reason):
            self.lost += 1

    @implementer(IPushProducer)
    class PushProd:
        def __init__(self, st, side):
            self.side, self.paused, self.stopped = side, False, False

        def pauseProducing(self):
            self.paused = True

        def resumeProducing(self):
            self.paused = False

        def stopProducing(self):
            self.stopped = True

    @implementer(IPullProducer)
    class PullProd:
        def __init__(self, st, side):
            self.st, self.side, self.paused, self.stopped = st, side, False, False

        def resumeProducing(self):
            side = self.side
            if self.stopped:
                return
            if side.nw < 2:
                self.st._app_write(side)
            else:
                side.registered = False
                side.tls.unregisterProducer()

        def stopProducing(self):
            self.stopped = True

    @implementer(IOpenSSLClientConnectionCreator, IOpenSSLServerConnectionCreator)
    class Creator:
        def __init__(self, st, side):
            self.st, self.side = st, side

        def _make(self, tlsProtocol):
            if self.st.cfg.get("engine") == "real":
                from checks import _c17_realssl as R
                conn = R.RealConnection(R.context(self.st.profile["version"], self.st.profile["cert_bytes"]))
            else:
                conn = SSL.Connection(SSL.Context(SSL.TLS_METHOD), None, profile=self.st.profile)
            self.side.conn = conn
            return conn

        clientConnectionForTLS = serverConnectionForTLS = _make

    class AppFactory(Factory):
        noisy = False

        def __init__(self, side):
            self.side = side

        def buildProtocol(self, addr):
            return self.side.app

    class NS:
        pass
    from twisted.logger import globalLogPublisher

    def observer(event):
        # anything twisted logs as a failure while the harness drives it (e.g. an exception swallowed by a
        # failuresHandled block) is attributed to the state being driven
        if _CUR and (event.get("log_failure") is not None or event.get("isError")):
            f = event.get("log_failure")
            _CUR[-1].logged.append("%s: %s" % (getattr(getattr(f, "type", None), "__name__", "error"),
                                               str(getattr(f, "value", event.get("log_format", "")))[:200]))
    globalLogPublisher.addObserver(observer)

    ns = NS()
    ns.__dict__.update(locals())
    ns.StepClock = _step_clock_class()
    _NS = ns
    return ns


class St:
    def __init__(self, cfg, seed=0):
        ns = _ns()
        self.cfg = cfg
        self.seed = seed
        self.profile = {"version": cfg["version"], "eof": cfg["eof"], "max_fragment": cfg.get("frag", 2 ** 14),
                        "cert_bytes": cfg.get("cert", 0)}
        self.nev = 0
        self.npartial = 0          # partial deliveries so far (bounded, see BOUNDS)
        self.maxpartial = cfg.get("partial")      # None = unbounded
        self.cuts = CUTS[cfg.get("menu", "mixed")]
        self.bad = []
        self.flags = set()
        self.logged = []
        self.sides = {}
        for name in ("c", "s"):
            side = Side(name)
            side.mode = cfg["modes"][0 if name == "c" else 1]
            side.clock = ns.StepClock()
            side.coop = ns.Cooperator(terminationPredicateFactory=lambda: (lambda: True),
                                   scheduler=lambda f, clock=side.clock: clock.callLater(0, f))
            side.app = ns.Recorder(side)
            side.factory = ns.TLSMemoryBIOFactory(ns.Creator(self, side), name == "c", ns.AppFactory(side), side.clock)
            side.tr = ns.MemTransport()
            side.tls = side.factory.buildProtocol(None)
            self.sides[name] = side
        for name in ("c", "s"):
            side = self.sides[name]
            side.tr.protocol = side.tls
            self._guard(side, "makeConnection", lambda side=side: side.tls.makeConnection(side.tr))
        for ev in PREFIX[cfg["start"]][cfg["version"]]:
            apply(self, ev)
        self.nev = 0

    # -- helpers ---------------------------------------------------------------------------------
    def chunk(self, side, i):
        if self.cfg.get("big") and side.name == "c" and i == 0:
            # larger than _AggregateSmallWrites.MAX_BUFFER_SIZE and than four 2**14-byte TLS records
            return bytes([ord("C"), ord("A"), ord("0") + self.seed % 10]) * (self.cfg["big"] // 3)
        return bytes([ord("C") if side.name == "c" else ord("S"), ord("a") + i, ord("0") + self.seed % 10])

    def pending(self, to):
        """Bytes written by the peer of ``to`` and not yet delivered to ``to``."""
        frm = self.sides[PEER[to.name]]
        return frm.tr.value()[to.delivered:]

    def hs_done(self, side):
        return bool(side.conn.is_init_finished())

    def _guard(self, side, what, fn):
        """Run real code for ``side``; an exception raised by twisted is a violation, one raised by the harness or the
        engine model propagates (harness error)."""
        task = _NS.task
        saved = task._theCooperator
        task._theCooperator = side.coop
        _CUR.append(self)
        try:
            fn()
        except Exception as e:  # noqa
            tb = e.__traceback__
            last = tb
            while last.tb_next is not None:
                last = last.tb_next
            fn_ = last.tb_frame.f_code.co_filename
            if "/twisted/" not in fn_:
                raise
            self.bad.append(("exception:%s@%s:%s-during-%s" % (type(e).__name__, os.path.basename(fn_),
                                                               last.tb_frame.f_code.co_name, what), repr(e)))
        finally:
            _CUR.pop()
            task._theCooperator = saved

    def _app_write(self, side):
        """The application (or its producer) writes its next chunk through the TLS transport."""
        data = self.chunk(side, side.nw)
        side.nw += 1
        peer = self.sides[PEER[side.name]]
        phase = "posths" if self.hs_done(side) else "prehs"
        if side.closed or side.app.lost:
            side.void.append(data)
        elif side.lose_idx is None:
            side.stream.append((data, "req", phase))
        elif side.registered:
            side.stream.append((data, "opt", phase))
        else:
            side.forbidden.append(data)
            self.flags.add("write-after-lose")
        side.tls.write(data)


# scripted prefixes that bring the connection to the established state (all reachable by the BFS itself)
PREFIX = {
    "fresh": {"1.3": [], "1.2": []},
    "est": {"1.3": [("d", "s", "all"), ("d", "c", "all"), ("d", "s", "all")],
            "1.2": [("d", "s", "all"), ("d", "c", "all"), ("d", "s", "all"), ("d", "c", "all")]},
}


def _cut(pending, how, real=False):
    n = len(pending)
    if how == "all":
        return n
    if how == "one":
        return 1
    if how == "half":
        return n // 2
    if how == "rec":
        if real:    # TLS record header: type, version (2), length (2)
            return 5 + (pending[3] << 8 | pending[4]) if n >= 5 else n
        return 4 + (pending[1] << 8 | pending[2]) if n >= 4 else n
    raise ValueError(how)


def _stop_producer(st, side):
    """abstract.FileDescriptor.connectionLost: a real transport tells its registered producer to stop before the
    protocol hears connectionLost; the (well-behaved) application producer then considers itself unregistered."""
    prod = side.tr.producer
    if prod is not None:
        side.tr.producer = None
        st._guard(side, "stopProducing", prod.stopProducing)
    if side.prod is not None and side.prod.stopped:
        side.registered = False


def apply(st, ev):
    ns = _NS
    ConnectionDone, ConnectionLost, ConnectionAborted, Failure = ns.ConnectionDone, ns.ConnectionLost, ns.ConnectionAborted, ns.Failure
    op = ev[0]
    side = st.sides[ev[1]]
    idx = st.nev
    st.nev += 1
    if op == "w":
        st._guard(side, "write", lambda: st._app_write(side))
    elif op == "reg":
        side.prod = (ns.PushProd if side.mode == "push" else ns.PullProd)(st, side)
        side.registered = side.was_registered = True
        st._guard(side, "registerProducer", lambda: side.tls.registerProducer(side.prod, side.mode == "push"))
        if side.prod.stopped:
            side.registered = False
    elif op == "unreg":
        side.registered = False
        st._guard(side, "unregisterProducer", lambda: side.tls.unregisterProducer())
    elif op == "lose":
        side.lose_idx = idx
        side.abortive = (not st.hs_done(side)) and not side.stream
        if side.abortive:
            st.flags.add("abortive-close")
        st._guard(side, "loseConnection", lambda: side.tls.loseConnection())
    elif op == "d":
        p = st.pending(side)
        n = _cut(p, ev[2], st.cfg.get("engine") == "real")
        if ev[2] != "all":
            st.npartial += 1
        data = p[:n]
        side.delivered += n
        st._guard(side, "dataReceived", lambda: side.tls.dataReceived(data))
    elif op == "tick":
        st._guard(side, "reactor-iteration", side.clock.step)
    elif op == "tclose":
        side.closed = True
        side.closed_by = "asked"
        side.tr.disconnected = True
        _stop_producer(st, side)
        reason = ConnectionAborted() if side.tr.aborted else ConnectionDone()
        st._guard(side, "connectionLost", lambda: side.tls.connectionLost(Failure(reason)))
    elif op == "eof":
        side.closed = True
        side.closed_by = "eof"
        side.tr.disconnected = True
        _stop_producer(st, side)
        peer = st.sides[PEER[side.name]]
        reason = ConnectionLost() if peer.tr.aborted else ConnectionDone()
        st.flags.add("eof")
        st._guard(side, "connectionLost", lambda: side.tls.connectionLost(Failure(reason)))
    else:
        raise ValueError(ev)


def _can_write(side):
    if side.nw >= 2 or side.app.lost:
        return False
    if side.registered:
        return side.mode == "push" and not side.prod.paused and not side.prod.stopped
    return True


def pending_events(st):
    """Events that model work the system still owes (network, reactor); none enabled = quiescent."""
    evs = []
    for name in ("c", "s"):
        side = st.sides[name]
        peer = st.sides[PEER[name]]
        p = st.pending(side)
        if not side.closed:
            if p:
                evs.append(("d", name, "all"))
                n = len(p)
                if st.maxpartial is None or st.npartial < st.maxpartial:
                    seen = {n}
                    for how in st.cuts:
                        k = _cut(p, how, st.cfg.get("engine") == "real")
                        if 0 < k < n and k not in seen:
                            seen.add(k)
                            evs.append(("d", name, how))
            elif peer.closed:
                evs.append(("eof", name))
            if side.tr.disconnecting:
                evs.append(("tclose", name))
        if side.clock.due():
            evs.append(("tick", name))
    return evs


def enabled(st):
    evs = pending_events(st)
    for name in ("c", "s"):
        side = st.sides[name]
        if _can_write(side):
            evs.append(("w", name))
        if side.app.lost:
            continue
        if side.mode != "direct" and not side.was_registered and side.lose_idx is None and side.nw < 2:
            evs.append(("reg", name))
        if side.mode == "push" and side.registered:
            evs.append(("unreg", name))
        if side.lose_idx is None:
            evs.append(("lose", name))
    return evs


# ------------------------------------------------------------------------------------------------
# oracle
# ------------------------------------------------------------------------------------------------
def _expected(writer):
    return b"".join(c for c, _k, _p in writer.stream)


def _must(writer, reader):
    """Bytes of ``writer`` that ``reader`` must have received in a quiescent state."""
    if reader.lose_idx is None:
        ok = True
    else:
        ok = writer.lose_idx is not None and writer.lose_idx < reader.lose_idx and not reader.abortive
    if not ok:
        return b"", None
    req = [(c, p) for c, k, p in writer.stream if k == "req"]
    return b"".join(c for c, _ in req), req


def _r(b):
    if isinstance(b, (list, tuple)):
        return "[%s]" % ", ".join(_r(x) for x in b)
    b = bytes(b)
    return repr(b) if len(b) <= 40 else "%r...(%d bytes)" % (b[:12], len(b))


def invariant(st, hist):
    out = list(st.bad)
    quiet = not pending_events(st)
    anylose = any(s.lose_idx is not None for s in st.sides.values())
    for name in ("c", "s"):
        rd = st.sides[name]
        wr = st.sides[PEER[name]]
        got = bytes(rd.app.data)
        exp = _expected(wr)
        who = "client" if name == "c" else "server"
        prefix_ok = exp.startswith(got)
        if not prefix_ok:
            extra = None
            if got.startswith(exp):
                extra = got[len(exp):]
            if any(f in got for f in wr.forbidden):
                out.append(("TLS:bytes-written-after-loseConnection-delivered",
                            "%s application received %s; the peer wrote %s before and %s after its loseConnection" % (
                                who, _r(got), _r(exp), _r(wr.forbidden))))
            elif any(f in got for f in wr.void):
                out.append(("TLS:bytes-written-after-connectionLost-delivered", "%s received %s" % (who, _r(got))))
            elif extra is not None:
                out.append(("TLS:extra-bytes-delivered", "%s application received %s, the peer only wrote %s" % (who, _r(got), _r(exp))))
            else:
                out.append(("TLS:delivered-bytes-not-a-prefix-of-written-bytes",
                            "%s application received %s, the peer wrote %s" % (who, _r(got), _r(exp))))
        if rd.app.lost > 1:
            out.append(("TLS:connectionLost-called-more-than-once", "%s application got connectionLost %d times" % (who, rd.app.lost)))
        if rd.app.after_lost:
            out.append(("TLS:dataReceived-after-connectionLost", "%s application got data after connectionLost" % who))
        if rd.app.made != 1:
            out.append(("TLS:connectionMade-count", "%s application connectionMade %d times" % (who, rd.app.made)))
        if rd.closed and rd.app.lost == 0:
            out.append(("TLS:connectionLost-not-forwarded", "%s transport reported connectionLost (%s) but the application "
                        "was not told" % (who, rd.closed_by)))
        if quiet:
            must, req = _must(wr, rd)
            if must and prefix_ok and not got.startswith(must):
                missing = None
                off = 0
                for c, p in req:
                    if len(got) < off + len(c):
                        missing = p
                        break
                    off += len(c)
                closer = "writer-closed" if wr.lose_idx is not None else "nobody-closed-first"
                out.append(("TLS:bytes-not-delivered-at-quiescence:%s:%s-write" % (closer, missing),
                            "quiescent, %s application received %s but the peer wrote %s before its loseConnection" % (
                                who, _r(got), _r(must))))
            # whatever the engine of a writer that did not abort encrypted is on the wire in order; a reader that did
            # not abort keeps reading until the writer's close_notify / EOF, which come later in the stream
            sent = b"".join(wr.conn.log_sent)
            if prefix_ok and not rd.abortive and not wr.abortive and exp.startswith(sent) and not got.startswith(sent) and \
                    not (must and not got.startswith(must)):
                out.append(("TLS:encrypted-bytes-not-delivered-at-quiescence",
                            "quiescent, the peer's TLS engine encrypted %s but the %s application (which did not abort) "
                            "received only %s" % (_r(sent), who, _r(got))))
            # a push producer unregisters when the application decides to (an environment choice); a pull producer
            # finishes by itself as long as the TLS layer keeps pulling it, so it is no excuse
            waits_for_producer = any(s.lose_idx is not None and s.registered and s.mode == "push"
                                     for s in st.sides.values())
            if anylose and not waits_for_producer:
                if rd.app.lost != 1:
                    out.append(("TLS:no-connectionLost-at-quiescence-after-loseConnection",
                                "quiescent after a loseConnection; %s application connectionLost count %d" % (who, rd.app.lost)))
                if not rd.closed:
                    out.append(("TLS:transport-not-closed-at-quiescence-after-loseConnection",
                                "quiescent after a loseConnection; %s underlying transport was neither asked to close "
                                "nor reached by EOF" % who))
    for ev in st.logged:
        out.append(("TLS:failure-logged", ev))
    if st.cfg.get("cert"):
        # one root cause, one signature: in the big-flight configuration the quiescence consequences of a handshake
        # that stalled with engine output left unflushed are reported as that
        stuck = [(n, _out_len(s.conn)) for n, s in st.sides.items() if _out_len(s.conn) and not st.hs_done(s)]
        if quiet and stuck:
            cons = sorted({sig for sig, _d in out if "-at-quiescence" in sig})
            out = [(sig, d) for sig, d in out if "-at-quiescence" not in sig]
            if cons:
                out.append(("TLS:handshake-stalls:flight-over-32KiB-partly-left-in-write-BIO",
                            "quiescent with the handshake unfinished: part of a handshake flight carrying a %d-byte "
                            "Certificate is still in the write BIO of %s (one bio_read(2**15) per flush); consequences: %s" % (
                                st.cfg["cert"], [n for n, _k in stuck], ", ".join(cons))))
        out = [(sig if sig.startswith("TLS:handshake-stalls") else sig + ":big-handshake-flight", d) for sig, d in out]
    return out


# ------------------------------------------------------------------------------------------------
# canonical state
# ------------------------------------------------------------------------------------------------
def _g(o, n, d=None):
    return getattr(o, n, d) if o is not None else d


def _tls_view(p):
    agg = _g(p, "_aggregator")
    prod = _g(p, "_producer")
    inner = _g(prod, "_producer")
    task_ = _g(inner, "_coopTask")
    return (bool(_g(p, "_handshakeDone")), bool(_g(p, "_lostTLSConnection")), bool(_g(p, "disconnecting")),
            bool(_g(p, "connected")), bool(_g(p, "_aborted")),
            tuple(bytes(x) for x in (_g(p, "_appSendBuffer") or ())),
            prod is not None, bool(_g(prod, "_producerPaused")), _g(p, "_reason") is None,
            tuple(bytes(x) for x in (_g(agg, "_buffer") or ())), bool(_g(agg, "_scheduled")),
            _g(task_, "_pauseCount"), _g(task_, "_completionState") is None, _g(p, "_tlsConnection") is None)


def _out_len(c):
    return c.pending_out() if hasattr(c, "pending_out") else len(c._out)


def _engine_view(c):
    return (c._step, c._done, bytes(c._in), bytes(c._out), c._eof, bytes(c._plain), c._shutdown,
            c._fatal is not None, c._wseq, c._rseq)


def canon(st):
    out = []
    order = tuple(sorted((s.lose_idx, n) for n, s in st.sides.items() if s.lose_idx is not None))
    out.append((tuple(n for _i, n in order), None if st.maxpartial is None else min(st.npartial, st.maxpartial)))
    for name in ("c", "s"):
        s = st.sides[name]
        out.append((
            _engine_view(s.conn), _tls_view(s.tls),
            s.tr.disconnecting, s.tr.aborted, s.tr.producer is not None, bytes(st.pending(s)),
            bytes(s.app.data), s.app.lost,
            s.nw, s.lose_idx is not None, s.abortive, s.closed, s.registered, s.was_registered,
            _g(s.prod, "paused"), _g(s.prod, "stopped"),
            tuple(getattr(c.func, "__qualname__", "?") for c in s.clock.due()),
            tuple((c, k) for c, k, _p in s.stream), tuple(s.forbidden), tuple(s.void),
        ))
    return tuple(out)


# ------------------------------------------------------------------------------------------------
# shards
# ------------------------------------------------------------------------------------------------
CUTS = {"rec": ("rec",), "bytes": ("one", "half"), "mixed": ("one", "half", "rec")}
# depth per (tier, cut menu, start)
DEPTH = {
    "quick": {("rec", "fresh"): 10, ("rec", "est"): 9, ("bytes", "fresh"): 8, ("bytes", "est"): 7},
    "thorough": {("rec", "fresh"): 12, ("rec", "est"): 11, ("bytes", "fresh"): 9, ("bytes", "est"): 8,
                 ("mixed", "fresh"): 8, ("mixed", "est"): 7},
}


def _depth(tier, cfg):
    d = DEPTH[tier][(cfg["menu"], cfg["start"])]
    # two producers roughly double the branching: one level less keeps shards of similar cost
    if sum(m != "direct" for m in cfg["modes"]) == 2 and (tier == "thorough" or cfg["start"] == "fresh"):
        d -= 1
    return d


_ALL9 = [(a, b) for a in MODES for b in MODES]


def configs(tier):
    out = []
    if tier == "quick":
        plan = [(("1.3", "syscall"), [("direct", "direct"), ("push", "direct"), ("direct", "push"), ("pull", "direct"),
                                      ("direct", "pull")]),
                (("1.2", "ssl"), [("direct", "direct"), ("push", "pull"), ("pull", "push")])]
        menus = ("rec", "bytes")
    else:
        plan = [(("1.3", "syscall"), _ALL9), (("1.2", "ssl"), _ALL9),
                (("1.3", "ssl"), [("direct", "direct")]), (("1.2", "syscall"), [("direct", "direct")])]
        menus = ("rec", "bytes", "mixed")
    for (version, eof), modes in plan:
        for m in modes:
            for start in ("fresh", "est"):
                for menu in menus:
                    c = {"version": version, "eof": eof, "modes": list(m), "start": start, "menu": menu}
                    c["depth"] = _depth(tier, c)
                    out.append(c)
    # a server Certificate message of 40000 bytes: the server's second flight exceeds 2**15 bytes
    for (version, eof), _m in plan[:2]:
        out.append({"version": version, "eof": eof, "modes": ["direct", "direct"], "start": "fresh", "menu": "rec",
                    "cert": 40000, "depth": 7 if tier == "quick" else 9})
    # small record fragments: send() consumes 2 of the 3 bytes per call (partial-write loop in _write)
    for (version, eof), _m in plan[:2]:
        for start in ("fresh", "est"):
            c = {"version": version, "eof": eof, "modes": ["direct", "direct"], "start": start, "menu": "rec", "frag": 2}
            c["depth"] = _depth(tier, c)
            out.append(c)
    # one 69999-byte write: more than _AggregateSmallWrites.MAX_BUFFER_SIZE, five 2**14-byte send() calls
    for (version, eof), _m in plan[:2]:
        out.append({"version": version, "eof": eof, "modes": ["direct", "direct"], "start": "est", "menu": "rec",
                    "big": 70000, "depth": 6 if tier == "quick" else 8})
    # trusted base: model engine vs the local libssl (cffi), BFS over API call sequences
    cd = {"fresh": 10, "est": 6} if tier == "quick" else {"fresh": 12, "est": 8}
    for version in ("1.3", "1.2"):
        for start in ("fresh", "est"):
            out.append({"kind": "conf", "version": version, "start": start, "depth": cd[start]})
    # the real tls.py on REAL OpenSSL: re-execution of every history that reaches a distinct model state
    rd = {"fresh": 8, "est": 7} if tier == "quick" else {"fresh": 9, "est": 8}
    rmodes = [("direct", "direct"), ("push", "pull"), ("pull", "push")]
    if tier != "quick":
        rmodes += [("push", "push"), ("pull", "pull")]
    for version in ("1.3", "1.2"):
        for m in rmodes:
            for start in ("fresh", "est"):
                d = rd[start] - (0 if m == ("direct", "direct") else 1)
                out.append({"kind": "real", "engine": "real", "version": version, "eof": "ssl", "modes": list(m),
                            "start": start, "menu": "rec", "depth": d})
        out.append({"kind": "real", "engine": "real", "version": version, "eof": "ssl", "modes": ["direct", "direct"],
                    "start": "est", "menu": "mixed", "depth": rd["est"] - 1})
        out.append({"kind": "real", "engine": "real", "version": version, "eof": "ssl", "modes": ["direct", "direct"],
                    "start": "fresh", "menu": "rec", "cert": 40000, "depth": 5})
    return out


def shards(tier, seed):
    return configs(tier)


def _observe(stats, cfgkey, st):
    nt = False
    for name in ("c", "s"):
        s = st.sides[name]
        v = _tls_view(s.tls)
        if v[5]:
            stats.outcome("write-buffered-until-handshake")
            nt = True
        if s.conn._in:
            stats.outcome("partial-record-in-engine")
            nt = True
        if _g(s.prod, "paused") or v[7]:
            stats.outcome("producer-paused")
            nt = True
        if s.conn._shutdown == 1:
            stats.outcome("close-notify-sent-awaiting-peer")
            nt = True
        if s.conn._shutdown == 3:
            stats.outcome("tls-shutdown-complete")
        if s.tr.aborted:
            stats.outcome("aborted-before-handshake")
        if s.app.data:
            stats.outcome("data-delivered")
        if s.app.lost:
            stats.outcome("connectionLost-delivered")
        if s.closed_by == "eof":
            stats.outcome("closed-by-peer-eof")
        if s.forbidden:
            stats.outcome("write-after-loseConnection-dropped")
        if any(k == "opt" for _c, k, _p in s.stream):
            stats.outcome("producer-write-after-loseConnection")
        if v[9]:
            stats.outcome("small-write-aggregated")
    if all(st.hs_done(s) for s in st.sides.values()):
        stats.outcome("handshake-complete-both")
    if not pending_events(st):
        stats.outcome("quiescent")
        if all(s.closed and s.app.lost == 1 for s in st.sides.values()):
            stats.outcome("quiescent-both-closed")
            if any(s.app.data for s in st.sides.values()):
                stats.outcome("quiescent-both-closed-with-data")
    if nt:
        stats.nt((cfgkey, canon(st)))


def _run_conf(shard, tier):
    """Trusted-base check: the model engine against the local libssl (a deviation is a harness error, not a finding)."""
    from checks import _c17_realssl as R
    stats = Stats()
    if not R.available():
        stats.notes.append("C17: libssl cffi bindings unavailable - model/real conformance part skipped")
        return stats
    res = R.conformance(shard["version"], "ssl", shard["depth"], R.EST[shard["version"]] if shard["start"] == "est" else None)
    stats.count("conformance_states", res.states)
    stats.count("conformance_transitions", res.transitions)
    stats.outcome("model-engine-conforms-to-real-openssl")
    if res.violations:
        raise RuntimeError("C17 model engine deviates from real OpenSSL (%s): %r" % (R.openssl_version(), res.violations[:5]))
    return stats


def _run_real(cfg, tier, seed):
    """Every history that reaches a distinct model state (BFS over the model-engine harness, depth cfg['depth']) is
    re-executed with REAL OpenSSL as the engine of the real tls.py, under the same oracle."""
    from checks import _c17_realssl as R
    stats = Stats()
    if not R.available():
        stats.notes.append("C17: libssl cffi bindings unavailable - real-OpenSSL part skipped")
        return stats
    mcfg = {k: v for k, v in cfg.items() if k not in ("engine", "kind")}
    hists = []
    bfs(lambda: St(mcfg, seed), apply, enabled, canon, lambda st, h: (), cfg["depth"], on_state=lambda st, h: hists.append(h))
    diverged = 0
    for h in hists:
        st = St(cfg, seed)
        done = 0
        for ev in h:
            if ev not in enabled(st):
                diverged += 1
                break
            apply(st, ev)
            done += 1
            bad = invariant(st, h[:done])
            if bad:
                for sig, d in bad:
                    stats.violation(sig, d, {"config": cfg, "seed": seed, "history": [list(e) for e in h[:done]]})
                break
        stats.evaluations += 1
        stats.count("real_openssl_events", done)
        if done == len(h) and not pending_events(st) and all(s.closed and s.app.lost == 1 for s in st.sides.values()) \
                and any(s.app.data for s in st.sides.values()):
            stats.outcome("real-openssl:quiescent-both-closed-with-data")
    stats.count("real_openssl_histories", len(hists))
    stats.count("real_openssl_histories_not_applicable", diverged)
    stats.outcome("real-openssl-engine-run")
    return stats


def run_shard(shard, tier, seed):
    cfg = shard
    if cfg.get("kind") == "conf":
        return _run_conf(cfg, tier)
    if cfg.get("kind") == "real":
        return _run_real(cfg, tier, seed)
    stats = Stats()
    cfgkey = repr(sorted(cfg.items()))
    depth = cfg.get("depth") or _depth(tier, cfg)

    def on_state(st, hist):
        _observe(stats, cfgkey, st)

    res = bfs(lambda: St(cfg, seed), apply, enabled, canon, invariant, depth, on_state=on_state)
    stats.add_bfs(res, {"config": cfg, "seed": seed})
    stats.samples = [{"config": cfg, "history": [list(e) for e in h]} for h in res.samples[-1:]]
    return stats


def replay(w):
    st = St(w["config"], w.get("seed", 0))
    for i, ev in enumerate(w["history"]):
        ev = tuple(ev)
        if ev not in enabled(st):
            # the code under replay took a different turn earlier (e.g. never asked its transport to close):
            # the recorded execution does not exist here, so the recorded violation is not reproduced
            return [("replay-not-applicable", "event %d %r of the witness is not enabled in the replayed state" % (i, ev))]
        apply(st, ev)
        bad = invariant(st, w["history"][:i + 1])
        if bad:
            return bad
    return invariant(st, w["history"])
