"""C20 HTTP server responses: exact framing, no header injection.

Every case is a small response script (status, reason, header operations, cookies,
optional honest Content-Length, writes, finish) run inside the process() of a real
http.Request on a real HTTPChannel; the emitted bytes are parsed by h11 (client role)
and compared with a boring reference of what the script asked for."""
from __future__ import annotations
import itertools

from mc.runner import Stats
from mc.choice import explore
from checks._http_b import (canon_value, canon_cookie, is_token, to_bytes_utf8, sym_class,
                            parse_responses, tup)

ID = "C20"
LEVEL = "exploration"
TECHNIQUE = "exhaustive enumeration of response scripts + independent parser (h11)"
RULE = ("every response script of the families below is executed on a real http.Request/HTTPChannel and the "
        "wire bytes are parsed back with h11: (framing) full product protocol{1.1,1.0}x{GET,HEAD}x{keep-alive,close} "
        "x status x write-sequence x explicit Content-Length; (reason) every hostile reason phrase x protocol x "
        "status; (header) every header API x every name symbol (valid/invalid token, str/bytes) x every value "
        "string of <=3 (thorough 4) symbols over {a,CR,LF,':',SP} plus a curated hostile list, str and bytes; "
        "(pairs of header operations incl. case-variant names); (cookies) every hostile symbol in name, value and "
        "each attribute; (pairs) all <=2 (thorough 3) simultaneous deviations from the benign script over all "
        "dimensions. non-trivial = script containing a line break, NUL, non-ASCII, invalid name, empty write or "
        "a no-body condition (HEAD/204/304)")
BOUNDS = {"quick": "value strings <=3 symbols; <=2 header ops; <=2 cookies; <=2 simultaneous deviations",
          "thorough": "value strings <=4 symbols; <=2 header ops; <=2 cookies; <=3 simultaneous deviations"}
ASSUMPTIONS = [
    "h11 0.16 (client role) is the independent HTTP/1.1 parser; its grammar is RFC 9110/9112 plus leniencies",
    "the application is honest about an explicit Content-Length (it equals the number of bytes written) and does "
    "not set Transfer-Encoding / Connection itself; header values carry no lone surrogates",
    "headers the server adds on its own (Transfer-Encoding, Connection, Content-Length, Date, Server) are not "
    "counted as 'set'; field values are compared up to runs of line breaks/spaces and surrounding whitespace",
]
MIN = {"quick": {"evaluations": 32000, "nontrivial": 12000, "outcomes": 6},
       "thorough": {"evaluations": 430000, "nontrivial": 210000, "outcomes": 6}}

NO_BODY = (204, 304)
SERVER_OWN = {b"transfer-encoding", b"connection", b"content-length", b"date", b"server", b"keep-alive"}
BREAKS = {"unparseable", "extra-header", "trailing-bytes", "not-terminated", "not-one-response",
          "body-bytes-on-bodyless-response"}

# ---------------------------------------------------------------- alphabets
PROTOS = [("1.1", "GET", False), ("1.1", "HEAD", False), ("1.0", "GET", False), ("1.0", "HEAD", False),
          ("1.1", "GET", True), ("1.1", "HEAD", True)]
CODES = [200, 204, 304, 404, 599, 299]
REASONS = [None, b"OK", b"", b"a\r\nEvil: y", b"a\nEvil: y", b"a\rEvil: y",
           b"a\r\n\r\nHTTP/1.1 200 OK\r\n\r\n", b"a\r\n", b"caf\xe9 x", b"two  words\t", b"a\x00b"]
WRITES = [(b"a",), (), (b"",), (b"a", b"bc"), (b"", b"a"), (b"a", b""), (b"0\r\n\r\n",), (b"x" * 10,),
          (b"x" * 16, b"y"), (b"\r\n",), (bytes(range(256)),)]

VALID_NAMES = ["X-A", "x-a", "X-B", "X|~!#$%&'*+.^_`0", "etag", "www-authenticate"]
INVALID_NAMES = ["", "X A", " X", "X ", "X:A", "X\r\nEvil: y", "X\nEvil", "X\r", "X\x00", "X\xe9", "X\t",
                 "(X)", "X/A", "X=A", "X\x7f", "X€", "X\n", "\nX"]
CURATED_VALUES = ["v", "", "a\r\nEvil: y", "a\nEvil: y", "a\rEvil: y", "a\r\n b", "a\r\n\tb",
                  "a\r\n\r\nHTTP/1.1 200 OK\r\n\r\n", " a ", "a\tb", "caf\xe9", "a\x01b", "a\x00b",
                  "a b", "a\x85b", "\r\n", "a\r\n", "\r\na", "a\n\rb", "a;b=c"]
APIS = ["set", "add", "setraw"]
COOKIE_SYMS = ["c", "", "a b", "a;b", "a; Evil=1", "a\r\nEvil: y", "a\nEvil: y", "a\rb", "a\r\n", "caf\xe9",
               "a=b", "a\x00b", ";", " a ", "a,b", "a\tb"]
COOKIE_ATTRS = ["expires", "domain", "path", "max_age", "comment"]


def both_types(s, latin1=False):
    """A text symbol as str and as bytes (bytes via Latin-1 so every byte value stays one byte)."""
    out = [s]
    try:
        out.append(s.encode("latin-1"))
    except UnicodeEncodeError:
        pass
    return out


def systematic_values(maxlen):
    syms = ["a", "\r", "\n", ":", " "]
    for n in range(1, maxlen + 1):
        for t in itertools.product(syms, repeat=n):
            yield "".join(t)


DEFAULT = (("1.1", "GET", False), 200, None, (b"a",), False, (), ())


def mk(proto=DEFAULT[0], code=200, reason=None, writes=(b"a",), cl=False, hdrs=(), cookies=()):
    return (proto, code, reason, writes, cl, hdrs, cookies)


def family_framing():
    for proto in PROTOS:
        for code in CODES:
            for w in WRITES:
                for cl in (False, True):
                    for reason in (None, b"OK"):
                        for hdrs in ((), (("set", "X-A", ("v",)),)):
                            yield mk(proto, code, reason, w, cl, hdrs)


def family_reason():
    for reason in REASONS:
        for proto in PROTOS:
            for code in CODES:
                for w in ((), (b"a", b"bc")):
                    for cl in (False, True):
                        yield mk(proto, code, reason, w, cl)


def family_header(tier):
    maxlen = 3 if tier == "quick" else 4
    values = []
    for v in list(systematic_values(maxlen)) + CURATED_VALUES:
        values.extend(both_types(v))
    protos = [PROTOS[0], PROTOS[3]]
    for proto in protos:
        for api in APIS:
            for name in VALID_NAMES:
                for nm in both_types(name):
                    for v in values:
                        vals = (v,) if api != "setraw" else (v, "w2")
                        yield mk(proto, hdrs=((api, nm, vals),))
            for name in INVALID_NAMES:
                for nm in both_types(name):
                    for v in ("v", b"v", "a\r\nEvil: y", b"", "caf\xe9"):
                        vals = (v,) if api != "setraw" else (v, "w2")
                        yield mk(proto, hdrs=((api, nm, vals),))


def family_header_pairs():
    names = ["X-A", "x-a", b"X-A", "X-B", "X A"]
    vals = ["v1", "a\r\nEvil: y", ""]
    for n1 in names:
        for n2 in names:
            for a1 in APIS:
                for a2 in APIS:
                    for v1 in vals:
                        for v2 in ("v2", b"b\nEvil: z"):
                            h1 = (a1, n1, (v1,) if a1 != "setraw" else (v1, "w1"))
                            h2 = (a2, n2, (v2,) if a2 != "setraw" else (v2, "w2"))
                            yield mk(hdrs=(h1, h2))


def family_cookies():
    syms = []
    for s in COOKIE_SYMS:
        syms.extend(both_types(s))
    for k in syms:
        for v in syms:
            yield mk(cookies=((k, v, ()),))
    for attr in COOKIE_ATTRS:
        for s in syms:
            yield mk(cookies=(("k", "v", ((attr, s),)),))
            yield mk(cookies=((b"k", b"v", ((attr, s), ("secure", True))),))
    for secure in (None, False, True):
        for httpOnly in (False, True):
            for ss in (None, "lax", "Strict", b"strict", b"LAX", "bad", "lax\r\nEvil: y", ""):
                attrs = (("secure", secure), ("httpOnly", httpOnly), ("sameSite", ss))
                yield mk(cookies=(("k", "v", attrs),))
    full = tuple((a, "x%d" % i) for i, a in enumerate(COOKIE_ATTRS)) + (("secure", True), ("httpOnly", True),
                                                                         ("sameSite", "lax"))
    for k in syms:
        yield mk(cookies=((k, "v", full), ("k2", k, ())))
    for proto in PROTOS:
        for code in (200, 204, 304):
            for k in ("c", "a\r\nEvil: y", b"a;b"):
                yield mk(proto, code, cookies=((k, "v", ()), ("k2", "v2", (("path", "/"),))))
    # a Set-Cookie header set directly next to addCookie
    for api in APIS:
        for ncook in (0, 1, 2):
            cookies = tuple(("k%d" % i, "v", ()) for i in range(ncook))
            yield mk(hdrs=((api, "Set-Cookie", ("h=1",) if api != "setraw" else ("h=1", "h=2")),), cookies=cookies)


# deviation-bounded product over all dimensions (curated symbols only)
HDR_MENU = [None] + [(api, n, (v,) if api != "setraw" else (v, "w2"))
                     for api in APIS
                     for n in ("X-A", b"x-a", "X A", "X\r\nEvil: y")
                     for v in ("v", "a\r\nEvil: y", b"a\nEvil: y", "caf\xe9", "")]
COOKIE_MENU = [None] + [(k, v, a) for k in ("c", "a\r\nEvil: y", b"a;b")
                        for v in ("v", b"a\nEvil: y", "caf\xe9;")
                        for a in ((), (("path", "/\r\nEvil: y"), ("secure", True)))]


def _pairs_run(ch):
    proto = ch.pick(PROTOS, "proto")
    code = ch.pick(CODES, "code")
    reason = ch.pick(REASONS, "reason")
    w = ch.pick(WRITES, "writes")
    cl = ch.pick((False, True), "cl")
    h1 = ch.pick(HDR_MENU, "hdr1")
    h2 = ch.pick(HDR_MENU, "hdr2")
    c1 = ch.pick(COOKIE_MENU, "cookie1")
    c2 = ch.pick(COOKIE_MENU, "cookie2")
    return mk(proto, code, reason, w, cl, tuple(h for h in (h1, h2) if h), tuple(c for c in (c1, c2) if c))


def family_pairs(tier, prefix):
    """All executions with <= bound deviations that start with the given choice prefix
    (the first choice points are the shard key)."""
    bound = 2 if tier == "quick" else 3
    dev = sum(1 for x in prefix if x)
    if dev > bound:
        return
    for _ch, case in explore(_pairs_run, bound=bound, prefix=list(prefix), prefix_dev=dev):
        yield case


def pair_prefixes():
    out = []
    for p in range(len(PROTOS)):
        for c in range(len(CODES)):
            if p or c:
                out.append([p, c])
            else:
                for r in range(len(REASONS)):
                    for w in range(len(WRITES)):
                        if r or w:
                            out.append([0, 0, r, w])
                        else:
                            out.extend([0, 0, 0, 0, cl, h] for cl in range(2) for h in range(len(HDR_MENU)))
    return out


def all_cases(tier):
    seen = set()
    out = []
    for fam in (family_framing(), family_reason(), family_header(tier), family_header_pairs(),
                family_cookies()):
        for c in fam:
            if c not in seen:
                seen.add(c)
                out.append(c)
    return out


# ---------------------------------------------------------------- execution on the real code
_REQ = None


def _req_class():
    global _REQ
    if _REQ is not None:
        return _REQ
    from twisted.web import http

    class ScriptedRequest(http.Request):
        def process(self):
            case, obs = self.channel._verif
            proto, code, reason, writes, cl, hdrs, cookies = case
            if reason is None:
                self.setResponseCode(code)
            else:
                self.setResponseCode(code, reason)
            for i, (api, name, values) in enumerate(hdrs):
                try:
                    if api == "set":
                        self.setHeader(name, values[0])
                    elif api == "add":
                        for v in values:
                            self.responseHeaders.addRawHeader(name, v)
                    else:
                        self.responseHeaders.setRawHeaders(name, list(values))
                except Exception as e:  # refusal of a name at set time is what the statement allows
                    obs["refused"][i] = type(e).__name__
            for j, (k, v, attrs) in enumerate(cookies):
                try:
                    self.addCookie(k, v, **dict(attrs))
                except ValueError as e:
                    obs["cookie_refused"][j] = type(e).__name__
            if cl:
                self.setHeader(b"Content-Length", b"%d" % sum(len(w) for w in writes))
            for w in writes:
                self.write(w)
            self.finish()
            obs["finished"] = True

    _REQ = ScriptedRequest
    return _REQ


def execute(case):
    from twisted.web import http
    from mc.net import MemTransport, connect
    proto, code, reason, writes, cl, hdrs, cookies = case
    ver, method, close = proto
    ch = http.HTTPChannel()
    ch.timeOut = None
    ch.requestFactory = _req_class()
    obs = {"refused": {}, "cookie_refused": {}, "finished": False, "raised": None}
    ch._verif = (case, obs)
    t = connect(ch, MemTransport())
    req = ("%s / HTTP/%s\r\nHost: x\r\n%s\r\n" % (method, ver, "Connection: close\r\n" if close else "")).encode()
    try:
        ch.dataReceived(req)
    except Exception as e:
        obs["raised"] = "%s: %s" % (type(e).__name__, e)
    return t.value(), t.disconnecting, obs


# ---------------------------------------------------------------- reference + oracle
def _norm_cookie_part(p, first):
    name, sep, val = p.partition(b"=")
    name = name.strip(b" \t")
    if not first:
        name = name.lower()
    return (name, sep, canon_value(val))


def _cookie_forms(raw):
    """Order-insensitive and whole-string normal forms of a Set-Cookie value."""
    parts = raw.split(b";")
    first = _norm_cookie_part(parts[0], True)
    rest = sorted(_norm_cookie_part(p, False) for p in parts[1:])
    return (first, tuple(rest)), canon_cookie(raw)


def _ref_cookie(k, v, attrs):
    """Reference serialisation: name=value then the attributes; ';' and line breaks in any
    component can only be white space afterwards."""
    def comp(x):
        return canon_cookie(to_bytes_utf8(x))
    a = dict(attrs)
    s = canon_cookie(to_bytes_utf8(k) + b"=" + to_bytes_utf8(v))
    # whitespace directly around the first '=' belongs to name/value
    for key, label in (("expires", b"Expires"), ("domain", b"Domain"), ("path", b"Path"),
                       ("max_age", b"Max-Age"), ("comment", b"Comment")):
        if a.get(key) is not None:
            s += b"; " + label + b"=" + comp(a[key])
    if a.get("secure"):
        s += b"; Secure"
    if a.get("httpOnly"):
        s += b"; HttpOnly"
    if a.get("sameSite"):
        s += b"; SameSite=" + to_bytes_utf8(a["sameSite"]).lower()
    return s


def _samesite_valid(attrs):
    ss = dict(attrs).get("sameSite")
    if not ss:
        return True
    return to_bytes_utf8(ss).lower() in (b"lax", b"strict")


def check(case):
    """Run the case, return (fails, info).  fails: list of (kind, detail)."""
    proto, code, reason, writes, cl, hdrs, cookies = case
    ver, method, close = proto
    data, closing, obs = execute(case)
    fails = []
    info = {"bytes": data, "closing": closing}
    if obs["raised"] is not None:
        fails.append(("emit-raised", obs["raised"]))
        return fails, info
    if not obs["finished"]:
        fails.append(("process-not-run", repr(data[:80])))
        return fails, info

    # ---- reference: headers the script set
    exp = {}
    for i, (api, name, values) in enumerate(hdrs):
        valid = is_token(name)
        refused = i in obs["refused"]
        if valid and refused:
            fails.append(("valid-name-refused", "%r refused with %s" % (name, obs["refused"][i])))
            continue
        if not valid and not refused:
            fails.append(("invalid-name-accepted", "%r accepted by %s" % (name, api)))
            continue
        if not valid:
            continue
        ln = (name.encode("ascii") if isinstance(name, str) else bytes(name)).lower()
        vals = [to_bytes_utf8(v) for v in (values[:1] if api == "set" else values)]
        if api == "add":
            exp.setdefault(ln, []).extend(vals)
        else:
            exp[ln] = vals
    exp_cookies = []      # (forms or None)
    for j, (k, v, attrs) in enumerate(cookies):
        if j in obs["cookie_refused"]:
            if _samesite_valid(attrs):
                fails.append(("cookie-refused", "addCookie(%r, %r, %r) raised %s" % (k, v, attrs, obs["cookie_refused"][j])))
            continue
        exp_cookies.append(_cookie_forms(_ref_cookie(k, v, attrs)) if _samesite_valid(attrs) else None)
    if cl:
        exp[b"content-length"] = [b"%d" % sum(len(w) for w in writes)]
    bodyless = method == "HEAD" or code in NO_BODY
    exp_body = b"" if bodyless else b"".join(writes)

    # ---- the independent parse
    resps, left, err, ninfo = parse_responses(data, [method], closing)
    if err is not None:
        fails.append(("unparseable", "%s in %r" % (err, data[:200])))
        return fails, info
    if len(resps) != 1 or ninfo:
        fails.append(("not-one-response", "%d responses, %d informational in %r" % (len(resps), ninfo, data[:200])))
        return fails, info
    r = resps[0]
    info["parsed"] = r
    if not r.complete:
        fails.append(("not-terminated", "response end not reached (connection %s) in %r" % (
            "closing" if closing else "kept open", data[:200])))
        return fails, info
    if left:
        fails.append(("trailing-bytes", "%r after the response" % left[:80]))
    if r.status != code:
        fails.append(("status-differs", "parsed %r, set %r" % (r.status, code)))
    # "that status": an explicitly given reason phrase (also the empty one) is the one on the
    # status line, up to the line-break sanitising; with no phrase given any phrase is fine
    if reason is not None and canon_value(r.reason) != canon_value(reason):
        fails.append(("reason-differs", "parsed %r, set %r" % (r.reason, reason)))
    if r.body != exp_body:
        fails.append(("body-differs", "parsed %r, written %r" % (r.body[:60], exp_body[:60])))

    # headers
    got = {}
    for n, v in r.headers:
        got.setdefault(n, []).append(v)
    exp_sc = exp.pop(b"set-cookie", [])
    got_sc = got.pop(b"set-cookie", [])
    for n in sorted(set(exp) | set(got)):
        if n not in exp:
            if n in SERVER_OWN:
                continue
            fails.append(("extra-header", "%r: %r was never set" % (n, got[n])))
        elif n not in got:
            fails.append(("header-missing", "%r set to %r" % (n, exp[n])))
        elif [canon_value(v) for v in got[n]] != [canon_value(v) for v in exp[n]]:
            fails.append(("header-value-differs", "%r: parsed %r, set %r" % (n, got[n], exp[n])))
    # Set-Cookie lines: one per cookie (plus any set directly), same content
    want = [_cookie_forms(canon_value(v)) for v in exp_sc] + exp_cookies
    if len(got_sc) != len(want):
        fails.append(("set-cookie-count-differs", "parsed %r, expected %d" % (got_sc, len(want))))
    elif all(w is not None for w in want):
        gforms = [_cookie_forms(v) for v in got_sc]
        ok_a = sorted(g[0] for g in gforms) == sorted(w[0] for w in want)
        ok_b = sorted(g[1] for g in gforms) == sorted(w[1] for w in want)
        if not (ok_a or ok_b):
            fails.append(("set-cookie-differs", "parsed %r, expected like %r" % (got_sc, [w[1] for w in want])))

    # framing
    te = [v.lower() for v in r.get(b"transfer-encoding")]
    clv = r.get(b"content-length")
    chunked = any(b"chunked" in v for v in te)
    head_end = data.find(b"\r\n\r\n")
    wire_body = data[head_end + 4:] if head_end >= 0 else b""
    if bodyless:
        if wire_body:
            fails.append(("body-bytes-on-bodyless-response", "%r after the header block" % wire_body[:60]))
        info["framing"] = "no-body"
    else:
        if chunked and clv:
            fails.append(("chunked-and-content-length", "%r %r" % (te, clv)))
        if chunked and ver == "1.0":
            fails.append(("chunked-to-http10-client", "an HTTP/1.0 client reads %r as the body" % wire_body[:60]))
        if chunked:
            info["framing"] = "chunked"
        elif clv:
            info["framing"] = "content-length"
            if [int(x) for x in clv if x.isdigit()] != [len(exp_body)]:
                fails.append(("content-length-differs", "%r for %d body bytes" % (clv, len(exp_body))))
        else:
            info["framing"] = "close-delimited"
            if not closing:
                fails.append(("not-terminated", "no framing header and the connection is kept open"))
    return fails, info


# ---------------------------------------------------------------- signatures
def _dims(case):
    proto, code, reason, writes, cl, hdrs, cookies = case
    out = []
    if proto != DEFAULT[0]:
        out.append(("proto", (DEFAULT[0],) + case[1:]))
    if code != 200:
        out.append(("code", (proto, 200) + case[2:]))
    if reason is not None:
        out.append(("reason", case[:2] + (None,) + case[3:]))
    if writes != (b"a",):
        out.append(("writes", case[:3] + ((b"a",),) + case[4:]))
    if cl:
        out.append(("cl", case[:4] + (False,) + case[5:]))
    for i in range(len(hdrs)):
        out.append(("hdr", case[:5] + (hdrs[:i] + hdrs[i + 1:],) + case[6:]))
    for j in range(len(cookies)):
        out.append(("cookie", case[:6] + (cookies[:j] + cookies[j + 1:],)))
    # inside one header operation / cookie: name, values and attributes separately
    for i, (api, name, values) in enumerate(hdrs):
        plain = ("v",) * len(values)
        if name != "X-A":
            out.append(("hdr-name", case[:5] + (hdrs[:i] + ((api, "X-A", values),) + hdrs[i + 1:],) + case[6:]))
        if values != plain:
            out.append(("hdr-value", case[:5] + (hdrs[:i] + ((api, name, plain),) + hdrs[i + 1:],) + case[6:]))
    for j, (k, v, attrs) in enumerate(cookies):
        def with_cookie(c):
            return case[:6] + (cookies[:j] + (c,) + cookies[j + 1:],)
        if k != "k":
            out.append(("cookie-name", with_cookie(("k", v, attrs))))
        if v != "v":
            out.append(("cookie-value", with_cookie((k, "v", attrs))))
        for a in range(len(attrs)):
            out.append(("cookie-attr", with_cookie((k, v, attrs[:a] + attrs[a + 1:]))))
    return out


_FAILS = {}
_MINI = {}


def _failing(case):
    r = _FAILS.get(case)
    if r is None:
        r = _FAILS[case] = bool(check(case)[0])
    return r


def minimise(case):
    """Reset dimensions to the benign default while the case keeps failing (1-minimal).
    Deterministic: always the first dimension (fixed order) whose reset keeps it failing."""
    path = []
    while case not in _MINI:
        path.append(case)
        for _name, smaller in _dims(case):
            if _failing(smaller):
                case = smaller
                break
        else:
            _MINI[case] = case
    res = _MINI[case]
    for c in path:
        _MINI[c] = res
    return res


def signature(case, fails):
    proto, code, reason, writes, cl, hdrs, cookies = case
    parts = []
    if proto != DEFAULT[0]:
        parts.append("proto(%s-%s%s)" % (proto[0], proto[1], "-close" if proto[2] else ""))
    if code != 200:
        parts.append("code(%d)" % code)
    if reason is not None:
        parts.append("reason(%s)" % sym_class(reason))
    if writes != (b"a",):
        parts.append("writes(%d%s)" % (len(writes), ",empty" if b"" in writes else ""))
    if cl:
        parts.append("explicit-content-length")
    for api, name, values in hdrs:
        if not is_token(name):
            parts.append("header-name(%s)" % sym_class(name))
        elif to_bytes_utf8(name).lower() == b"set-cookie":
            parts.append("set-cookie-header")
        else:
            parts.append("header-value(%s)" % sym_class(values))
    for k, v, attrs in cookies:
        parts.append("cookie(%s)" % sym_class(k, v, [a[1] for a in attrs]))
    kinds = [k for k, _ in fails]
    kind = "breaks-message" if any(k in BREAKS for k in kinds) else kinds[0]
    return "http.Request:%s:%s" % ("+".join(sorted(set(parts))) or "benign", kind)


def nontrivial(case):
    proto, code, reason, writes, cl, hdrs, cookies = case
    if proto[1] == "HEAD" or code in NO_BODY or b"" in writes or not writes:
        return True
    if sym_class(reason, [(h[1], h[2]) for h in hdrs], [(c[0], c[1], [a[1] for a in c[2]]) for c in cookies]) != "plain":
        return True
    return any(not is_token(h[1]) for h in hdrs)


# ---------------------------------------------------------------- contract
NSHARDS = 24


def shards(tier, seed):
    return [["list", k, NSHARDS] for k in range(NSHARDS)] + \
           [["pairs", pre, 0] for pre in pair_prefixes()]


def run_shard(shard, tier, seed):
    st = Stats()
    kind, a, b = shard
    if kind == "list":
        cases = all_cases(tier)[a::b]
    else:
        cases = family_pairs(tier, a)
    for case in cases:
        st.evaluations += 1
        fails, info = check(case)
        if nontrivial(case):
            st.nt(case)
        if "framing" in info:
            st.outcome(info["framing"])
        proto, code, reason, writes, cl, hdrs, cookies = case
        if any(not is_token(h[1]) for h in hdrs) and not any(f[0] == "invalid-name-accepted" for f in fails):
            st.outcome("name-refused")
        if not fails:
            if "line-break" in sym_class([h[2] for h in hdrs]):
                st.outcome("line-break-sanitised")
            if cookies:
                st.outcome("cookie-emitted")
            if st.evaluations % 1500 == 1:
                st.sample({"case": case, "wire": info["bytes"][:160]})
            continue
        st.outcome("violation")
        small = minimise(case)
        sfails, sinfo = check(small)
        sig = signature(small, sfails)
        st.violation(sig, {"fails": sfails[:4], "wire": sinfo["bytes"][:300], "first_seen_in": case},
                     {"case": small})
    return st


def replay(w):
    case = tup(w["case"])
    fails, info = check(case)
    if not fails:
        return []
    return [(signature(case, fails), {"fails": fails[:4], "wire": info["bytes"][:300]})]
