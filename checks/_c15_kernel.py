"""SimKernel for C15: a small, deterministic model of Linux stream sockets and of the readiness
interfaces the Twisted reactors sit on (select, poll, epoll, an asyncio-style selector loop).

This is the *environment model* of the check, not code under test.  Every nondeterministic
answer of the kernel is asked from a ``mc.choice.Chooser`` (index 0 = the default answer):

* ``send``: how many of the offered bytes are accepted, 1..min(len, free)  (default: as many as fit)
* ``select``/``poll``/``epoll``/loop: the order in which ready descriptors are reported
  (default: ascending fd)
* abortive ``close`` (SO_LINGER 0 or unread data): how much of the tail of the data (and FIN) the
  peer has not read yet was still in the send queue and is destroyed by the reset (default: none)

``checks/_c15_conformance.py`` replays recorded real-loopback traces against this model (real must
be a subset of model); the ENOTCONN rule of ``shutdown`` and the tail loss on reset came from it.

The model only ever *adds* behaviours a real kernel can show (arbitrary partial sends, arbitrary
ready-set order); it never reports a descriptor writable and then accepts 0 bytes, and it never
reports readable and then answers EWOULDBLOCK.

One pipe per direction: ``peer.rx`` stands for the sender's send queue plus the receiver's receive
queue, with a combined capacity of ``cap`` bytes.

Readiness masks follow Linux ``tcp_poll``: IN when data is queued or the receive side is shut
down (FIN/RST seen), OUT when there is room (or the send side is shut down), HUP when both
directions are shut down or the connection was reset, ERR while an error is pending.
"""
import errno
import struct
import socket as _socket

POLLIN, POLLPRI, POLLOUT, POLLERR, POLLHUP, POLLNVAL = 1, 2, 4, 8, 16, 32

_CURRENT = None      # the kernel of the execution in progress (poll()/epoll() factories bind to it)


def current():
    return _CURRENT


class SimSocket:
    family = _socket.AF_INET
    type = _socket.SOCK_STREAM
    proto = 0

    def __init__(self, k, fd, name, local, remote):
        self.k = k
        self.fd = fd
        self.name = name
        self.local = local
        self.remote = remote
        self.peer = None
        self.rx = bytearray()
        self.fin_rcvd = False     # the peer's FIN is queued behind rx
        self.fin_read = False     # recv() already returned the EOF once
        self.wr_shut = False
        self.rd_shut = False
        self.closed = False
        self.reset = False        # a RST arrived (tcp_done): both directions dead
        self.err = 0              # pending SO_ERROR
        self.linger0 = False
        self.opts = {}
        self.blocking = True
        self.last_recv = None     # outcome class of the latest recv(): "data" / "eof" / "err" / "eagain"

    # -- plumbing -------------------------------------------------------------------------
    def fileno(self):
        return -1 if self.closed else self.fd

    def setblocking(self, flag):
        self.blocking = bool(flag)

    def getpeername(self):
        return self.remote

    def getsockname(self):
        return self.local

    def _check_open(self):
        if self.closed:
            raise OSError(errno.EBADF, "Bad file descriptor")

    def setsockopt(self, level, opt, value):
        self._check_open()
        if level == _socket.SOL_SOCKET and opt == _socket.SO_LINGER:
            onoff, secs = struct.unpack("ii", value)
            self.linger0 = bool(onoff) and secs == 0
        self.opts[(level, opt)] = value

    def getsockopt(self, level, opt, buflen=None):
        self._check_open()
        if level == _socket.SOL_SOCKET and opt == _socket.SO_ERROR:
            e, self.err = self.err, 0
            return e
        v = self.opts.get((level, opt), 0)
        return v if isinstance(v, int) else 1

    def connect_ex(self, addr):
        self._check_open()
        return errno.EISCONN

    # -- data -----------------------------------------------------------------------------
    def send(self, data, flags=0):
        k = self.k
        k.ops += 1
        self._check_open()
        if not isinstance(data, (bytes, bytearray, memoryview)):
            raise TypeError("a bytes-like object is required, not %r" % type(data).__name__)
        if self.err:
            e, self.err = self.err, 0
            k.log.append((self.name, "send", "err", e))
            raise OSError(e, "pending socket error")
        if self.wr_shut or self.reset:
            k.log.append((self.name, "send", "err", errno.EPIPE))
            raise BrokenPipeError(errno.EPIPE, "Broken pipe")
        data = bytes(data)
        n = len(data)
        if n == 0:
            k.log.append((self.name, "send", 0, 0))
            return 0
        peer = self.peer
        if peer.closed:
            # the peer is gone (we only saw its FIN): the kernel still takes the bytes, the peer's
            # stack answers with a RST
            k.rst = True
            m = min(n, k.cap)
            self.reset = True
            self.err = errno.EPIPE
            k.log.append((self.name, "send", n, m))
            k.sent_to_closed += m
            return m
        free = k.cap - len(peer.rx)
        if free <= 0:
            k.log.append((self.name, "send", "err", errno.EAGAIN))
            k.flags.add("send-ewouldblock")
            raise BlockingIOError(errno.EAGAIN, "Resource temporarily unavailable")
        m = min(n, free)
        c = k.ch.choose(m, "send") if m > 1 else 0
        took = m - c
        if took < n:
            k.flags.add("partial-send")
            if c:
                k.flags.add("chosen-short-send")
        peer.rx += data[:took]
        k.log.append((self.name, "send", n, took))
        return took

    def recv(self, n, flags=0):
        k = self.k
        k.ops += 1
        self._check_open()
        if self.rx:
            out = bytes(self.rx[:n])
            del self.rx[:n]
            k.log.append((self.name, "recv", n, len(out)))
            self.last_recv = "data"
            return out
        if self.fin_rcvd and not self.fin_read:
            self.fin_read = True
            k.log.append((self.name, "recv", n, "eof"))
            self.last_recv = "eof"
            return b""
        if self.err:
            e, self.err = self.err, 0
            k.log.append((self.name, "recv", "err", e))
            self.last_recv = "err"
            raise OSError(e, "pending socket error")
        if self.reset or self.fin_rcvd or self.rd_shut:
            k.log.append((self.name, "recv", n, "eof"))
            self.last_recv = "eof"
            return b""
        k.log.append((self.name, "recv", "err", errno.EAGAIN))
        k.flags.add("recv-ewouldblock")
        self.last_recv = "eagain"
        raise BlockingIOError(errno.EAGAIN, "Resource temporarily unavailable")

    def shutdown(self, how):
        k = self.k
        k.ops += 1
        self._check_open()
        if self.reset or (self.wr_shut and self.fin_rcvd):
            # reset, or both FINs exchanged: the connection no longer exists (Linux: ENOTCONN)
            k.log.append((self.name, "shutdown", how, errno.ENOTCONN))
            raise OSError(errno.ENOTCONN, "Transport endpoint is not connected")
        if how in (1, 2) and not self.wr_shut:
            self.wr_shut = True
            if not self.peer.closed:
                self.peer.fin_rcvd = True
        if how in (0, 2):
            self.rd_shut = True
        k.log.append((self.name, "shutdown", how, 0))

    def close(self):
        k = self.k
        if self.closed:
            return
        k.ops += 1
        self.closed = True
        k.socks.pop(self.fd, None)
        for ep in k.epolls:
            ep._reg.pop(self.fd, None)     # epoll forgets closed descriptors by itself
        peer = self.peer
        if peer.closed:
            k.log.append((self.name, "close", "peer-gone", 0))
            return
        if self.linger0 or self.rx:
            # abortive close: SO_LINGER(1, 0), or unread data in the receive queue
            k.rst = True
            if self.rx and not self.linger0:
                k.flags.add("close-with-unread-data")
            # whatever was still in our send queue dies with the connection: the tail of peer.rx and, behind it,
            # a FIN the peer has not read yet.  The peer keeps an explorer-chosen prefix (default: everything,
            # i.e. all of it had already arrived)
            fin = 1 if (peer.fin_rcvd and not peer.fin_read) else 0
            units = len(peer.rx) + fin
            if units:
                drop = k.ch.choose(units + 1, "rst-drop")
                if drop:
                    k.flags.add("unsent-tail-dropped-by-reset")
                    if fin:
                        peer.fin_rcvd = False
                        drop -= 1
                    if drop:
                        del peer.rx[len(peer.rx) - drop:]
            peer.reset = True
            peer.err = errno.ECONNRESET
            k.log.append((self.name, "close", "rst", 0))
        else:
            if not self.wr_shut:
                self.wr_shut = True
                peer.fin_rcvd = True
            k.log.append((self.name, "close", "fin", 0))

    # -- readiness (Linux tcp_poll) -------------------------------------------------------
    def mask(self):
        rcv_sd = self.fin_rcvd or self.rd_shut or self.reset
        snd_sd = self.wr_shut or self.reset
        m = 0
        if (rcv_sd and snd_sd) or self.reset:
            m |= POLLHUP
        if rcv_sd or self.rx:
            m |= POLLIN
        if snd_sd:
            m |= POLLOUT
        elif self.peer.closed or len(self.peer.rx) < self.k.cap:
            m |= POLLOUT
        if self.err:
            m |= POLLERR
        return m


class IdleFile:
    """A descriptor that is never ready (stands in for the reactor's waker pipe)."""

    def __init__(self, k, fd):
        self.k, self.fd, self.closed = k, fd, False

    def fileno(self):
        return self.fd

    def mask(self):
        return 0


class SimPoll:
    def __init__(self, k):
        self.k = k
        self._reg = {}

    def register(self, fd, mask=POLLIN | POLLPRI | POLLOUT):
        fd = _fd(fd)
        self._reg[fd] = mask

    def modify(self, fd, mask):
        fd = _fd(fd)
        if fd not in self._reg:
            raise OSError(errno.ENOENT, "No such file or directory")
        self._reg[fd] = mask

    def unregister(self, fd):
        fd = _fd(fd)
        del self._reg[fd]          # KeyError like select.poll

    def poll(self, timeout=None):
        k = self.k
        out = []
        for fd in sorted(self._reg):
            f = k.socks.get(fd)
            if f is None:
                out.append((fd, POLLNVAL))
                k.flags.add("poll-nval")
                continue
            ev = f.mask() & (self._reg[fd] | POLLERR | POLLHUP)
            if ev:
                out.append((fd, ev))
        return k.order(out, "poll-order")


class SimEpoll:
    def __init__(self, k, sizehint=-1, flags=0):
        self.k = k
        self._reg = {}
        self.closed = False
        k.epolls.append(self)

    def fileno(self):
        return 3

    def close(self):
        self.closed = True

    def register(self, fd, eventmask=POLLIN | POLLPRI | POLLOUT):
        fd = _fd(fd)
        if fd not in self.k.socks:
            raise OSError(errno.EBADF, "Bad file descriptor")
        if fd in self._reg:
            raise FileExistsError(errno.EEXIST, "File exists")
        self._reg[fd] = eventmask

    def modify(self, fd, eventmask):
        fd = _fd(fd)
        if fd not in self._reg:
            raise FileNotFoundError(errno.ENOENT, "No such file or directory")
        self._reg[fd] = eventmask

    def unregister(self, fd):
        fd = _fd(fd)
        if fd not in self._reg:
            raise FileNotFoundError(errno.ENOENT, "No such file or directory")
        del self._reg[fd]

    def poll(self, timeout=None, maxevents=-1):
        if maxevents == -1:
            maxevents = 1023
        elif maxevents < 1:
            raise ValueError("maxevents must be greater than 0, got %d" % maxevents)
        k = self.k
        out = []
        for fd in sorted(self._reg):
            f = k.socks.get(fd)
            if f is None:
                continue
            ev = f.mask() & (self._reg[fd] | POLLERR | POLLHUP)
            if ev:
                out.append((fd, ev))
        return k.order(out, "epoll-order")[:maxevents]


def _fd(x):
    if isinstance(x, int):
        fd = x
    else:
        fd = x.fileno()
    if fd < 0:
        raise ValueError("file descriptor cannot be a negative integer (%d)" % fd)
    return fd


class Handle:
    __slots__ = ("cb", "args", "cancelled", "when")

    def __init__(self, cb, args, when=None):
        self.cb, self.args, self.cancelled, self.when = cb, args, False, when

    def cancel(self):
        self.cancelled = True

    def cancelled_(self):
        return self.cancelled


class SimLoop:
    """The part of asyncio's selector event loop that AsyncioSelectorReactor uses: reader/writer
    callbacks per fd, timers, and ``run_once`` (= ``BaseEventLoop._run_once`` with a zero timeout):
    collect the ready I/O handles, then the due timers, then run them in that order, skipping
    handles cancelled meanwhile."""

    def __init__(self, k):
        self.k = k
        self._readers = {}
        self._writers = {}
        self._timers = []
        self._soon = []
        self._now = 1000.0

    def time(self):
        return self._now

    def add_reader(self, fd, cb, *args):
        fd = _fd(fd)
        if fd not in self.k.socks:
            raise OSError(errno.EBADF, "Bad file descriptor")
        h = Handle(cb, args)
        old = self._readers.get(fd)
        if old is not None:
            old.cancel()
        self._readers[fd] = h
        return h

    def add_writer(self, fd, cb, *args):
        fd = _fd(fd)
        if fd not in self.k.socks:
            raise OSError(errno.EBADF, "Bad file descriptor")
        h = Handle(cb, args)
        old = self._writers.get(fd)
        if old is not None:
            old.cancel()
        self._writers[fd] = h
        return h

    def remove_reader(self, fd):
        h = self._readers.pop(_fd(fd), None)
        if h is None:
            return False
        h.cancel()
        return True

    def remove_writer(self, fd):
        h = self._writers.pop(_fd(fd), None)
        if h is None:
            return False
        h.cancel()
        return True

    def call_at(self, when, cb, *args):
        h = Handle(cb, args, when)
        self._timers.append(h)
        return h

    def call_later(self, delay, cb, *args):
        return self.call_at(self._now + delay, cb, *args)

    def call_soon(self, cb, *args):
        h = Handle(cb, args)
        self._soon.append(h)
        return h

    call_soon_threadsafe = call_soon

    def pending_timers(self):
        return [h for h in self._timers if not h.cancelled] + [h for h in self._soon if not h.cancelled]

    def run_once(self):
        k = self.k
        ready = self._soon
        self._soon = []
        evs = []
        for fd in sorted(set(self._readers) | set(self._writers)):
            f = k.socks.get(fd)
            if f is None:
                continue
            want = (POLLIN if fd in self._readers else 0) | (POLLOUT if fd in self._writers else 0)
            ev = f.mask() & (want | POLLERR | POLLHUP)
            if ev:
                evs.append((fd, ev))
        for fd, ev in k.order(evs, "loop-order"):
            # selectors.EpollSelector.select + BaseSelectorEventLoop._process_events
            if ev & ~POLLOUT:
                h = self._readers.get(fd)
                if h is not None:
                    ready.append(h)
            if ev & ~POLLIN:
                h = self._writers.get(fd)
                if h is not None:
                    ready.append(h)
        due = [h for h in self._timers if h.when <= self._now]
        self._timers = [h for h in self._timers if h.when > self._now]
        ready.extend(due)
        for h in ready:
            if not h.cancelled:
                h.cb(*h.args)


_PERMS = {2: [(0, 1), (1, 0)],
          3: [(0, 1, 2), (0, 2, 1), (1, 0, 2), (1, 2, 0), (2, 0, 1), (2, 1, 0)]}


class SimKernel:
    def __init__(self, ch, cap=4):
        global _CURRENT
        self.ch = ch
        self.cap = cap
        self.socks = {}
        self.epolls = []
        self.log = []
        self.flags = set()
        self.ops = 0
        self.rst = False
        self.sent_to_closed = 0
        self._next_fd = 10
        _CURRENT = self

    def socketpair(self):
        a = SimSocket(self, self._next_fd, "A", ("127.0.0.1", 4001), ("127.0.0.1", 4002))
        b = SimSocket(self, self._next_fd + 1, "B", ("127.0.0.1", 4002), ("127.0.0.1", 4001))
        self._next_fd += 2
        a.peer, b.peer = b, a
        self.socks[a.fd] = a
        self.socks[b.fd] = b
        return a, b

    def idle_file(self):
        f = IdleFile(self, self._next_fd)
        self._next_fd += 1
        self.socks[f.fd] = f
        return f

    def order(self, items, label):
        """Explorer-chosen order of a ready list given in ascending-fd order."""
        n = len(items)
        if n < 2:
            return items
        if n > 3:
            raise AssertionError("SimKernel.order: more ready descriptors than modelled")
        perms = _PERMS[n]
        c = self.ch.choose(len(perms), label)
        if c:
            self.flags.add("reordered-ready-set")
        self.flags.add("two-ready")
        return [items[i] for i in perms[c]]

    # select.select replacement bound to this kernel
    def select(self, r, w, e, timeout=None):
        rr, ww = [], []
        for lst, out, bits in ((r, rr, POLLIN | POLLHUP | POLLERR), (w, ww, POLLOUT | POLLERR)):
            for obj in lst:
                fd = _fd(obj)
                f = self.socks.get(fd)
                if f is None:
                    raise OSError(errno.EBADF, "Bad file descriptor")
                if f.mask() & bits:
                    out.append((fd, obj))
        rr.sort(key=lambda t: t[0])
        ww.sort(key=lambda t: t[0])
        rr = self.order(rr, "select-r-order")
        ww = self.order(ww, "select-w-order")
        return [o for _, o in rr], [o for _, o in ww], []


# ---- module-global seams ------------------------------------------------------------------

def _select(r, w, e, timeout=None):
    return _CURRENT.select(r, w, e, timeout)


def _poll():
    return SimPoll(_CURRENT)


def _epoll(sizehint=-1, flags=0):
    return SimEpoll(_CURRENT, sizehint, flags)


_installed = False


def install():
    """Rebind the readiness primitives of the three fd-set reactors to the model (once per process)."""
    global _installed
    if _installed:
        return
    from twisted.internet import selectreactor, pollreactor, epollreactor
    selectreactor._select = _select
    pollreactor.poll = _poll
    epollreactor.epoll = _epoll
    _installed = True
