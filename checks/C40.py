"""C40 SMTP transfers message bodies transparently (real SMTPClient + FileSender <-> real SMTP/ESMTP server).

The client reads the body from a file-like object whose read() returns the body in an explorer-chosen chunking
(short reads are legal for file-like objects, so this is "any chunking of the client's reads" without patching
FileSender.CHUNK_SIZE); the bytes the client writes during the DATA phase are delivered to the server in an
explorer-chosen segmentation.  Oracle: the recording IMessage got exactly the body lines (modulo the documented
Received-header / blank-line insertion), eomReceived fired once and only while the client's final terminator was
being delivered, and every line the server handled in command mode is a line the client sent as a command.
"""
import itertools

from zope.interface import implementer
from twisted.internet import defer
from twisted.mail import smtp            # imported once in the parent; workers are forked
from mc.choice import compositions
from mc.net import MemTransport
from mc.runner import Stats

# the server reports a failing eomReceived through log.err; without an observer that is printed to stderr
from twisted.logger import globalLogBeginner
globalLogBeginner.beginLoggingTo([lambda event: None], redirectStandardIO=False, discardBuffer=True)

ID = "C40"
LEVEL = "exploration"
TECHNIQUE = "exhaustive bodies x read chunkings x network segmentations, end to end over in-memory transports"
RULE = ("bodies = every sequence of <= K lines over {'.', '..', '.a', 'a', '', 'a.b', 'h:v', 'a.'} (LF-terminated, no CR; "
        "dot lines first, last, adjacent and alone; a header-looking first line; an empty first line) x every chunking of the "
        "client's file reads (all compositions of the body when it is <= 8 (thorough 10) bytes, else whole + uniform sizes 1,2,3,5,7 + every "
        "chunking with <= 2 cuts) driven through a real SMTPClient/FileSender talking to a real SMTP (and ESMTP) server; for every "
        "distinct DATA-phase byte stream the client produced, the stream is additionally delivered whole, byte-at-a-time "
        "(commands and replies byte-at-a-time too) and with every 1-cut (thorough: every <= 2-cut for streams <= 16 bytes). "
        "non-trivial = distinct (body, chunking) where a chunk starts with '.' right after a line end or the body starts with '.', "
        "and distinct (DATA stream, segmentation) pairs. For a body whose real client stream is wrong (known findings) the "
        "server is additionally fed the reference dot-stuffed stream in every segmentation so that SMTP.dataLineReceived "
        "stays covered for dot-leading lines. Additionally: every ordered pair of bodies of <= 2 lines (thorough: also triples of "
        "<= 1-line bodies, ESMTP too) sent as consecutive messages over ONE connection (second client transaction after RSET), "
        "whole and byte-at-a-time, each message judged by the same oracle (state carried from one message to the next); and the same "
        "with a FIRST message that its recording IMessage refuses (SMTPServerError from the Received-header / first / second lineReceived "
        "call, or a failing eomReceived) followed by a normal message that must arrive intact")
BOUNDS = {"quick": "K=3 (585 bodies), SMTP server; ESMTP server for K<=2; 5329 two-message connections",
          "thorough": "K=4 over the first 6 lines + K=3 over 8 (1881 bodies), all read chunkings for bodies <= 10 bytes, ESMTP server too for K<=3, "
                      "<= 2 network cuts for DATA streams <= 16 bytes (1 cut beyond); 5329 two-message and 6561 three-message connections on both servers"}
ASSUMPTIONS = [
    "one recipient, one message per connection; delivery.receivedHeader returns a fixed marker line which is expected first",
    "documented header handling = a blank line is inserted before the first body line exactly when that line is non-empty and has no ':' "
    "(comment in SMTP.dataLineReceived); required for every message, also later ones on the same connection",
    "server replies are forwarded to the client after the whole DATA-phase stream has been delivered",
    "violations are attributed to the client when its DATA-phase stream differs from the reference dot-stuffing "
    "(per read chunk), otherwise to the server; the verdict itself only looks at the server side",
]
MIN = {"quick": {"evaluations": 47000, "nontrivial": 35000, "outcomes": 15},
       "thorough": {"evaluations": 410000, "nontrivial": 320000, "outcomes": 12}}

LINES = [b".", b"..", b".a", b"a", b"", b"a.b", b"h:v", b"a."]
RCVD = b"Received: by verif"
INCLUDE_EMPTY_BODY = True


# ---------------------------------------------------------------- reference
def ref_stream(lines):
    out = []
    for ln in lines:
        out.append((b"." + ln if ln[:1] == b"." else ln) + b"\r\n")
    out.append(b".\r\n")
    return b"".join(out)


def ref_pieces(body, chunks):
    """reference wire bytes per read chunk (stateful dot stuffing: start of message counts as start of line)"""
    out, at_bol, i = [], True, 0
    for c in chunks:
        piece = bytearray()
        for b in body[i:i + c]:
            if b == 0x0a:
                piece += b"\r\n"
                at_bol = True
            else:
                if at_bol and b == 0x2e:
                    piece += b"."
                piece.append(b)
                at_bol = False
        out.append(bytes(piece))
        i += c
    return out


def acceptable_messages(lines):
    """documented header handling (comment in SMTP.dataLineReceived): "Add a blank line between the generated
    Received:-header and the message body if the message comes in without any headers" - i.e. exactly when the
    first body line is non-empty and has no ':'."""
    if lines and lines[0] and b":" not in lines[0]:
        return [[b""] + list(lines)]
    return [list(lines)]


# ---------------------------------------------------------------- real objects
class ChunkFile:
    """file-like object: read(n) hands out the body in the chosen chunking (never more than n bytes)"""

    def __init__(self, body, chunks):
        self.pieces = []
        i = 0
        for c in chunks:
            self.pieces.append(body[i:i + c])
            i += c
        assert i == len(body)
        self.k = 0

    def read(self, n=-1):
        if self.k >= len(self.pieces):
            return b""
        p = self.pieces[self.k]
        assert n < 0 or len(p) <= n
        self.k += 1
        return p

    def close(self):
        pass


class Client(smtp.SMTPClient):
    def __init__(self, fileobjs):
        smtp.SMTPClient.__init__(self, b"client.example")
        self.fileobjs = list(fileobjs) if isinstance(fileobjs, (list, tuple)) else [fileobjs]
        self.fileobj = None
        self.sent = []          # (in_data_phase, line) for every sendLine
        self.mails = len(self.fileobjs)
        self.results = []
        self.in_data = False

    def sendLine(self, line):
        self.sent.append((self.in_data, line))
        return smtp.SMTPClient.sendLine(self, line)

    def getMailFrom(self):
        if self.mails:
            self.mails -= 1
            self.fileobj = self.fileobjs.pop(0)
            return b"a@client.example"
        return None

    def getMailTo(self):
        return [b"b@server.example"]

    def getMailData(self):
        return self.fileobj

    def sentMail(self, code, resp, numOk, addresses, log):
        self.results.append(code)


@implementer(smtp.IMessage)
class Msg:
    def __init__(self, rec):
        self.rec = rec
        self.fault = rec.faults[len(rec.msgs)] if len(rec.msgs) < len(rec.faults) else None
        rec.msgs.append(self)
        self.lines = []
        self.eoms = []
        self.lost = 0
        self.calls = 0

    def lineReceived(self, line):
        n = self.calls          # 0 = the Received header handed over in do_DATA, 1 = first line of the DATA phase, ...
        self.calls += 1
        if self.fault == ("refuse", n):
            raise smtp.SMTPServerError(552, b"refused by the message object")
        self.lines.append(bytes(line))

    def eomReceived(self):
        self.eoms.append((self.rec.delivered, list(self.lines)))
        if self.fault == ("eomfail",):
            return defer.fail(smtp.SMTPServerError(451, b"delivery failed"))
        return defer.succeed(None)

    def connectionLost(self):
        self.lost += 1


@implementer(smtp.IMessageDelivery)
class Delivery:
    def __init__(self, rec):
        self.rec = rec

    def receivedHeader(self, helo, origin, recipients):
        return RCVD

    def validateFrom(self, helo, origin):
        return origin

    def validateTo(self, user):
        return lambda: Msg(self.rec)


class Rec:
    def __init__(self, faults=()):
        self.faults = [tuple(f) if f else None for f in faults]   # per message index: None | ("refuse", n) | ("eomfail",)
        self.msgs = []
        self.cmdlines = []
        self.mode_unknown = False
        self.delivered = None    # number of DATA-phase stream bytes handed to the server so far (None outside)


def _server_class(base):
    class Server(base):
        timeout = None
        noisy = False

        def lineReceived(self, line):
            mode = getattr(self, "mode", None)
            if mode is None:
                self.rec.mode_unknown = True      # cannot tell command mode from data mode: skip the command verdict
            elif mode != smtp.DATA:
                self.rec.cmdlines.append(bytes(line))
            return base.lineReceived(self, line)
    return Server


SERVERS = {"SMTP": _server_class(smtp.SMTP), "ESMTP": _server_class(smtp.ESMTP)}


def session(server_kind, body, chunks, seg, bytewise_all=False, override=None, more=(), faults=()):
    """Run one complete client/server conversation.  seg = tuple of segment lengths for the DATA-phase stream
    (None = whole).  Returns a dict of observations."""
    rec = Rec(faults)
    server = SERVERS[server_kind]()
    server.rec = rec
    server.delivery = Delivery(rec)
    server.host = b"server.example"
    client = Client([ChunkFile(body, chunks)] + [ChunkFile(b, (len(b),) if b else ()) for b in more])
    ct, stt = MemTransport(), MemTransport()
    client.makeConnection(ct)
    server.makeConnection(stt)
    obs = {"stream": None, "pieces": None, "loop": False, "phases": []}

    def to_server(data, cuts):
        i = 0
        for c in cuts:
            if stt.disconnecting:
                break
            if rec.delivered is not None:
                rec.delivered += c
            server.dataReceived(data[i:i + c])
            i += c

    for _ in range(200 + 100 * len(more)):
        progress = False
        if stt.written and not ct.disconnecting:
            data = stt.value()
            stt.clear()
            progress = True
            if bytewise_all:
                for i in range(len(data)):
                    client.dataReceived(data[i:i + 1])
            else:
                client.dataReceived(data)
        if ct.producer is not None:
            # DATA phase: the client pumps the whole file, then its terminator
            progress = True
            pre = ct.value()
            ct.clear()
            if pre:
                to_server(pre, [len(pre)])
            client.in_data = True
            n = 0
            while ct.producer is not None and n < 10000:
                ct.producer.resumeProducing()
                n += 1
            client.in_data = False
            pieces = list(ct.written)
            stream = ct.value()
            ct.clear()
            first = not obs["phases"]
            obs["phases"].append({"client_stream": stream, "stream": stream})
            if first:
                obs["pieces"] = pieces
                obs["client_stream"] = stream
                if override is not None:
                    stream = override
                obs["stream"] = stream
                obs["phases"][0]["stream"] = stream
            cuts = list(seg) if (seg is not None and first) else [len(stream)]
            if bytewise_all:
                cuts = [1] * len(stream)
            assert sum(cuts) == len(stream), (cuts, stream)
            rec.delivered = 0
            to_server(stream, cuts)
            rec.delivered = None
        elif ct.written:
            data = ct.value()
            ct.clear()
            progress = True
            to_server(data, [1] * len(data) if bytewise_all else [len(data)])
        if not progress:
            break
    else:
        obs["loop"] = True
    obs["client_cmds"] = [ln for (d, ln) in client.sent if not d]
    obs["server_cmds"] = list(rec.cmdlines) if not rec.mode_unknown else []
    obs["msgs"] = [(list(m.lines), list(m.eoms), m.lost) for m in rec.msgs]
    obs["client_results"] = list(client.results)
    obs["server_closed"] = stt.disconnecting
    return obs


# ---------------------------------------------------------------- verdict
def judge_commands(obs):
    extra = list(obs["server_cmds"])
    for c in obs["client_cmds"]:
        if c in extra:
            extra.remove(c)
    if extra:
        return [("body-line-executed-as-command", "server handled %r in command mode; the client's commands were %r" % (
            extra, obs["client_cmds"]))]
    return []


def judge_message(lines, stream, msg):
    bad = []
    got, eoms, lost = msg
    if got[:1] == [RCVD]:
        got = got[1:]
    if len(eoms) != 1:
        bad.append(("eom-count", "eomReceived called %d times (connectionLost %d), lines %r" % (len(eoms), lost, got)))
    else:
        at, _ = eoms[0]
        if at != len(stream):
            bad.append(("data-ended-before-terminator", "eomReceived after %r of %d DATA-phase bytes (stream %r)" % (
                at, len(stream), stream)))
    if got not in acceptable_messages(lines):
        bad.append(("message-lines-differ", "server message got %r, body lines %r (documented form %r)" % (
            got, lines, acceptable_messages(lines)[0])))
    return bad


def judge(lines, body, chunks, obs):
    """Returns list of (kind, detail) end-to-end failures (server-side observations only)."""
    stream = obs["stream"]
    if stream is None:
        return [("no-data-phase", "client never reached DATA; client sent %r" % (obs["client_cmds"],))]
    bad = judge_commands(obs)
    if len(obs["msgs"]) != 1:
        bad.append(("message-count", "%d messages created" % len(obs["msgs"])))
        return bad
    return bad + judge_message(lines, stream, obs["msgs"][0])


def evaluate_multi(server_kind, lines_list, bytewise_all, faults=()):
    """Several messages over ONE connection (second SMTPClient transaction after RSET); whole reads.  The same
    transparency oracle is applied to every message that the recording IMessage does not itself refuse
    (faults[i]: message i's IMessage raises SMTPServerError from its n-th lineReceived call, or fails eomReceived;
    such a message is not judged, the messages after it must still arrive intact).  -> [(sig, detail)]"""
    faults = [tuple(f) if f else None for f in faults] + [None] * (len(lines_list) - len(faults))
    bodies = [b"".join(ln + b"\n" for ln in lines) for lines in lines_list]
    obs = session(server_kind, bodies[0], (len(bodies[0]),) if bodies[0] else (), None, bytewise_all, None, bodies[1:], faults)
    if obs["loop"]:
        return [("harness:pump-did-not-quiesce", "%r" % (lines_list,))]
    out = []
    ctx = "%s server; %d messages on one connection, bodies %r%s, delivered %s" % (
        server_kind, len(bodies), bodies, (", IMessage faults %r" % (faults,)) if any(faults) else "",
        "byte-at-a-time" if bytewise_all else "whole")
    for k, d in judge_commands(obs):
        out.append(("SMTP.dataLineReceived:%s" % k, ctx + ": " + d))
    # a message whose IMessage refuses the Received header is turned down at DATA: no DATA phase for it
    with_phase = [i for i, f in enumerate(faults) if f != ("refuse", 0)]
    if len(obs["phases"]) != len(with_phase) or len(obs["msgs"]) != len(bodies):
        out.append(("SMTP:later-message-on-same-connection:not-transferred",
                    ctx + ": %d DATA phases, %d server messages" % (len(obs["phases"]), len(obs["msgs"]))))
        return out
    phase_of = dict(zip(with_phase, obs["phases"]))
    refused_before = False
    for idx, (lines, msg) in enumerate(zip(lines_list, obs["msgs"])):
        if faults[idx] is not None:
            refused_before = True
            continue                      # the application refused this one itself: nothing to demand
        ph = phase_of[idx]
        bad = judge_message(lines, ph["stream"], msg)
        if not bad:
            continue
        later = (":later-message-after-a-refused-one" if refused_before else ":later-message-on-same-connection") if idx else ""
        if ph["client_stream"] != ref_stream(lines):
            out.append(("SMTPClient:data-stream-wrong" + later, ctx + ": message %d stream %r, reference %r; %s" % (
                idx + 1, ph["client_stream"], ref_stream(lines), "; ".join("%s: %s" % b for b in bad))))
        else:
            for k, d in bad:
                out.append(("SMTP.dataLineReceived:%s%s" % (k, later), ctx + ": message %d: %s" % (idx + 1, d)))
    return out


def attribute(lines, body, chunks, obs):
    """Which side deviates from the reference wire format?  Returns list of client sig suffixes ([] = client is fine)."""
    stream = obs["stream"]
    if stream is not None and stream != obs.get("client_stream"):
        return []      # the server was fed the reference stream
    if stream is None or stream == ref_stream(lines):
        return []
    pieces = obs["pieces"] or []
    refs = ref_pieces(body, chunks)
    out = []
    if len(pieces) == len(refs) + 1:
        i = 0
        for k, (p, r) in enumerate(zip(pieces, refs)):
            if p != r:
                starts_dot = body[i:i + 1] == b"."
                if r == b"." + p and starts_dot and k == 0:
                    out.append("SMTPClient.transformChunk:first-line-dot-not-stuffed")
                elif r == b"." + p and starts_dot and body[i - 1:i] == b"\n":
                    out.append("SMTPClient.transformChunk:chunk-boundary-dot-not-stuffed")
                else:
                    out.append("SMTPClient.transformChunk:data-stream-wrong")
            i += chunks[k]
        if pieces[-1] != b".\r\n":
            if body == b"" and pieces[-1] == b"\r\n.\r\n":
                out.append("SMTPClient.finishedFileTransfer:empty-body-gains-blank-line")
            else:
                out.append("SMTPClient.finishedFileTransfer:terminator-wrong")
    if not out:
        out.append("SMTPClient:data-stream-wrong")
    return sorted(set(out))


def evaluate(server_kind, lines, chunks, seg, bytewise_all, whole_ok=None, use_ref=False):
    """-> (violations [(sig, detail)], obs).  use_ref: hand the server the reference dot-stuffed stream instead of
    the client's (only used for bodies whose client stream is wrong, so that the server side is still exercised)."""
    body = b"".join(ln + b"\n" for ln in lines)
    obs = session(server_kind, body, chunks, seg, bytewise_all, ref_stream(lines) if use_ref else None)
    if obs["loop"]:
        return [("harness:pump-did-not-quiesce", "%r %r" % (lines, chunks))], obs
    bad = judge(lines, body, chunks, obs)
    if not bad:
        return [], obs
    client_sigs = attribute(lines, body, chunks, obs)
    kinds = ",".join(k for k, _ in bad)
    detail = "%s server; body %r read as chunks %r, DATA stream %r%s (reference %r) delivered %s: %s" % (
        server_kind, body, chunks, obs["stream"], " [reference stream fed to the server instead of the client's]" if use_ref else "",
        ref_stream(lines), "byte-at-a-time" if bytewise_all else (seg or "whole"),
        "; ".join("%s: %s" % b for b in bad))
    if client_sigs:
        return [(s, detail) for s in client_sigs], obs
    suffix = ""
    if whole_ok:
        suffix = ":only-when-split"
    return [("SMTP.dataLineReceived:%s%s" % (k, suffix), detail) for k, _ in bad], obs


# ---------------------------------------------------------------- enumeration
def chunkings(n, full):
    if n == 0:
        yield ()
        return
    if n <= full:
        for c in compositions(n):
            yield c
        return
    seen = set()

    def emit(c):
        c = tuple(c)
        if c not in seen:
            seen.add(c)
            return True
        return False
    if emit((n,)):
        yield (n,)
    for size in (1, 2, 3, 5, 7):
        c = [size] * (n // size) + ([n % size] if n % size else [])
        if emit(c):
            yield tuple(c)
    for r in (1, 2):
        for pos in itertools.combinations(range(1, n), r):
            c, last = [], 0
            for p in pos:
                c.append(p - last)
                last = p
            c.append(n - last)
            if emit(c):
                yield tuple(c)


def stream_segs(n, k):
    for r in range(1, k + 1):
        for pos in itertools.combinations(range(1, n), r):
            c, last = [], 0
            for p in pos:
                c.append(p - last)
                last = p
            c.append(n - last)
            yield tuple(c)


def _bodies(tier):
    out = []
    if tier == "quick":
        for k in range(0, 4):
            out += [p for p in itertools.product(range(len(LINES)), repeat=k)]
    else:
        for k in range(0, 4):
            out += [p for p in itertools.product(range(len(LINES)), repeat=k)]
        out += [p for p in itertools.product(range(6), repeat=4)]
    if not INCLUDE_EMPTY_BODY:
        out = [b for b in out if b]
    return out


def _small_bodies(maxlines):
    out = []
    for k in range(0, maxlines + 1):
        out += [p for p in itertools.product(range(len(LINES)), repeat=k)]
    return out


def shards(tier, seed):
    bodies = _bodies(tier)
    n = 48 if tier == "quick" else 96
    out = [{"bodies": bodies[i::n]} for i in range(n) if bodies[i::n]]
    firsts = _small_bodies(2)
    m = 8 if tier == "quick" else 16
    out += [{"multi_first": firsts[i::m]} for i in range(m)]
    out += [{"multi_first": firsts[i::m], "faulty_first": True} for i in range(m)]
    return out


FAULTS = [("refuse", 0), ("refuse", 1), ("refuse", 2), ("eomfail",)]


def run_multi_faulty(shard, tier, st):
    """first message refused by its IMessage (header / first / second DATA line / at end of message), then a normal one"""
    kinds = ["SMTP"] if tier == "quick" else ["SMTP", "ESMTP"]
    for first in shard["multi_first"]:
        seconds = _small_bodies(2) if len(first) <= 1 else _small_bodies(1)
        for second in seconds:
            lines_list = [[LINES[i] for i in first], [LINES[i] for i in second]]
            for fault in FAULTS:
                for server_kind in kinds:
                    for bw in (False, True):
                        st.evaluations += 1
                        bad = evaluate_multi(server_kind, lines_list, bw, [fault])
                        st.nt(("faulty", server_kind, first, second, fault, bw))
                        st.outcome("multi:first-%s:%s" % ("-".join(map(str, fault)), "ok" if not bad else "violating"))
                        for sig, detail in bad:
                            st.outcome(sig)
                            st.violation(sig, detail, {"multi": [list(l) for l in lines_list], "server": server_kind,
                                                       "bytewise": bw, "faults": [list(fault)]})
    return st


def run_multi(shard, tier, st):
    if shard.get("faulty_first"):
        return run_multi_faulty(shard, tier, st)
    seconds = _small_bodies(2)
    singles = _small_bodies(1)
    kinds = ["SMTP"] if tier == "quick" else ["SMTP", "ESMTP"]
    for first in shard["multi_first"]:
        combos = [(first, second) for second in seconds]
        if tier != "quick" and len(first) <= 1:
            combos += [(first, b, c) for b in singles for c in singles]
        for combo in combos:
            lines_list = [[LINES[i] for i in idx] for idx in combo]
            for server_kind in kinds:
                for bw in (False, True):
                    st.evaluations += 1
                    bad = evaluate_multi(server_kind, lines_list, bw)
                    st.nt(("multi", server_kind, combo, bw))
                    heads = ["hdr" if (l and b":" in l[0]) else ("blank" if (l and not l[0]) else ("empty" if not l else "text"))
                             for l in lines_list]
                    st.outcome("multi:" + ">".join(heads[:2]) + (":ok" if not bad else ":violating"))
                    for sig, detail in bad:
                        st.outcome(sig)
                        st.violation(sig, detail, {"multi": [list(l) for l in lines_list], "server": server_kind, "bytewise": bw})
    return st


def run_shard(shard, tier, seed):
    st = Stats()
    if "multi_first" in shard:
        return run_multi(shard, tier, st)
    ncuts = 1 if tier == "quick" else 2
    for idx in shard["bodies"]:
        lines = [LINES[i] for i in idx]
        body = b"".join(ln + b"\n" for ln in lines)
        kinds = ["SMTP"]
        if len(lines) <= (2 if tier == "quick" else 3):
            kinds.append("ESMTP")
        for server_kind in kinds:
            streams = {}
            for chunks in chunkings(len(body), 8 if tier == "quick" else 10):
                st.evaluations += 1
                bad, obs = evaluate(server_kind, lines, chunks, None, False)
                i, dotstart = 0, body[:1] == b"."
                for c in chunks[:-1]:
                    i += c
                    if body[i:i + 1] == b"." and body[i - 1:i] == b"\n":
                        dotstart = True
                if dotstart:
                    st.nt(("chunk", server_kind, body, chunks))
                    st.outcome("dot-at-chunk-boundary")
                if body.startswith(b"."):
                    st.outcome("body-starts-with-dot")
                if not body:
                    st.outcome("empty-body")
                if b"\n." in body:
                    st.outcome("dot-line-inside-body")
                st.outcome("delivered-intact" if not bad else "violating")
                for sig, detail in bad:
                    st.outcome(sig)
                    st.violation(sig, detail, {"server": server_kind, "lines": lines, "chunks": list(chunks),
                                               "seg": None, "bytewise": False, "whole_ok": None})
                if obs["stream"] is not None and obs["stream"] not in streams:
                    streams[obs["stream"]] = (chunks, not bad)
                if st.evaluations % 4001 == 1:
                    st.sample({"server": server_kind, "body": body, "chunks": list(chunks), "stream": obs["stream"]})
            todo = [(stream, chunks, whole_ok, False) for stream, (chunks, whole_ok) in streams.items()]
            if ref_stream(lines) not in streams:
                # the real client never produced the correct stream for this body (known findings): keep the
                # server side covered by giving it what a correct client sends
                st.evaluations += 1
                bad, obs = evaluate(server_kind, lines, (len(body),) if body else (), None, False, None, True)
                for sig, detail in bad:
                    st.outcome(sig)
                    st.violation(sig, detail, {"server": server_kind, "lines": lines, "chunks": [len(body)] if body else [],
                                               "seg": None, "bytewise": False, "whole_ok": None, "use_ref": True})
                todo.append((ref_stream(lines), (len(body),) if body else (), not bad, True))
                st.outcome("server-fed-reference-stream")
            for stream, chunks, whole_ok, use_ref in todo:
                variants = [(None, True)] + [(seg, False) for seg in stream_segs(len(stream), ncuts if len(stream) <= 16 else 1)]
                for seg, bw in variants:
                    st.evaluations += 1
                    bad, obs = evaluate(server_kind, lines, chunks, seg, bw, whole_ok, use_ref)
                    st.nt(("seg", server_kind, stream, seg, bw))
                    st.outcome("delivered-intact" if not bad else "violating")
                    for sig, detail in bad:
                        st.outcome(sig)
                        st.violation(sig, detail, {"server": server_kind, "lines": lines, "chunks": list(chunks),
                                                   "seg": list(seg) if seg else None, "bytewise": bw, "whole_ok": whole_ok,
                                                   "use_ref": use_ref})
    return st


def replay(w):
    if w.get("multi") is not None:
        return evaluate_multi(w["server"], [[bytes(x) for x in l] for l in w["multi"]], bool(w.get("bytewise")),
                              [tuple(f) for f in (w.get("faults") or [])])
    lines = [bytes(x) if not isinstance(x, bytes) else x for x in w["lines"]]
    seg = tuple(w["seg"]) if w.get("seg") else None
    bad, _ = evaluate(w["server"], lines, tuple(w["chunks"]), seg, bool(w.get("bytewise")), w.get("whole_ok"),
                      bool(w.get("use_ref")))
    return bad
