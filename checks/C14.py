"""C14 FileDescriptor write buffering: every operation history x every partial-acceptance pattern (bounded).

The real ``twisted.internet.abstract.FileDescriptor`` is driven by the harness acting as
application, producer, reactor and operating system.  ``writeSomeData`` asks the Chooser how many
bytes the OS takes; the history itself is a sequence of free choices.
"""
from mc.choice import Chooser, explore
from mc.runner import Stats

ID = "C14"
LEVEL = "fault_enumeration"
TECHNIQUE = "stateless enumeration of operation histories x OS partial-accept patterns (deviation bounded)"
RULE = ("every history of <= D operations from {write 1/3/5 bytes, writeSequence, registerProducer(pull x2, push x2 "
        "scripted producers), unregisterProducer, loseConnection, loseWriteConnection, doWrite-when-writer "
        "[, fd.pauseProducing/resumeProducing, writeSequence with an empty chunk]} on a real FileDescriptor "
        "(SEND_LIMIT=4, bufferSize=3), followed by doWrite until quiescent; at every writeSomeData the OS accepts "
        "all bytes (default) or any smaller count 0..len-1 (one deviation each). Oracle evaluated after every "
        "operation. non-trivial = distinct (history, accept pattern) with a partial/zero accept, a two-level "
        "buffer (dataBuffer and _tempDataBuffer both pending), a producer pause/resume or a deferred close")
BOUNDS = {"quick": "histories <= 5 ops + drain with <= 1 short write; histories <= 4 ops + drain with <= 2 short writes",
          "thorough": "histories <= 6 ops + drain with <= 1 short write; <= 5 ops with <= 2 short writes; extended alphabet: <= 5 ops with <= 1, <= 4 ops with <= 2 short writes"}
ASSUMPTIONS = [
    "the harness is the reactor: doWrite is called only while the descriptor is registered as a writer, a "
    "non-None doWrite result is followed by connectionLost (as _disconnectSelectable does)",
    "after a completed half-close no writes are issued and no producer is registered (the statement does not "
    "say what happens to such bytes; the real code drops them and lets loseConnection close at once)",
    "'paused whenever buffered data exceeds bufferSize' is evaluated at the end of each operation once the "
    "producer has written at least one byte since it was registered (registerProducer itself never pauses)",
    "OS errors from writeSomeData are not part of the alphabet",
]
MIN = {"quick": {"evaluations": 600000, "nontrivial": 120000, "outcomes": 9},
       "thorough": {"evaluations": 6000000, "nontrivial": 600000, "outcomes": 9}}
LEVEL_TEXT = ("All operation histories up to the stated length on the real FileDescriptor, each with every single "
              "(thorough: every pair of) short-write answer(s) of the OS, checked against a byte-stream/close/producer oracle.")

SEND_LIMIT = 4
BUFFER_SIZE = 3

PULL = {"A": [("w", 1), ("w", 1)],            # small chunks, then idle (stays registered)
        "B": [("w", 5), ("ul",)]}             # one big chunk, then unregister + loseConnection (FileSender style)
PUSH = {"Q": [],                              # quiet: only the harness-level writes
        "E": [("w", 5), ("w", 1)]}            # eager: writes from inside resumeProducing


class FakeReactor:
    def __init__(self):
        self.readers = set()
        self.writers = set()
        self.delayed = []

    def addReader(self, r):
        self.readers.add(r)

    def removeReader(self, r):
        self.readers.discard(r)

    def addWriter(self, w):
        self.writers.add(w)

    def removeWriter(self, w):
        self.writers.discard(w)

    def callLater(self, t, f, *a, **kw):
        self.delayed.append((t, f, a, kw))

    def getReaders(self):
        return list(self.readers)

    def getWriters(self):
        return list(self.writers)


class Producer:
    def __init__(self, env, streaming, script):
        self.env = env
        self.streaming = streaming
        self.script = list(script)
        self.state = "producing"
        self.wrote = False        # wrote >= 1 byte since registration

    def resumeProducing(self):
        self.state = "producing"
        self.env.flags.add("push-resumed" if self.streaming else "pull-resumed")
        if self.script and self.env.cur is self:
            act = self.script.pop(0)
            if act[0] == "w":
                self.env.write(act[1])
            elif act[0] == "ul":
                self.env.unregister()
                self.env.lose()

    def pauseProducing(self):
        self.state = "paused"
        self.env.flags.add("paused")

    def stopProducing(self):
        self.state = "stopped"


def _make_fd_class():
    from twisted.internet.abstract import FileDescriptor

    class FD(FileDescriptor):
        SEND_LIMIT = globals()["SEND_LIMIT"]
        bufferSize = BUFFER_SIZE

        def __init__(self, reactor, env):
            FileDescriptor.__init__(self, reactor)
            self.env = env
            self.connected = 1

        def fileno(self):
            return 7

        def writeSomeData(self, data):
            return self.env.os_write(bytes(data))

        def _closeWriteConnection(self):
            self.env.half_closed()

        def connectionLost(self, reason):
            self.env.closing("connectionLost")
            FileDescriptor.connectionLost(self, reason)

        def doRead(self):
            return None

    return FD


_FD = None


class Env:
    def __init__(self, ch, base):
        global _FD
        if _FD is None:
            _FD = _make_fd_class()
        self.ch = ch
        self.reactor = FakeReactor()
        self.fd = _FD(self.reactor, self)
        self.base = base
        self.written = bytearray()
        self.accepted = 0
        self.lose_mark = None      # len(written) when loseConnection was first requested
        self.losew = False
        self.halfclosed = False
        self.closed = False
        self.cur = None            # currently registered producer (harness bookkeeping)
        self.bad = []
        self.flags = set()
        self.ops = []
        self.partial = 0

    # ---- things the application / producer does
    def fresh(self, n):
        s = len(self.written) + self.base
        return bytes(((s + i) % 250) + 1 for i in range(n))

    def _account(self, chunks):
        n = sum(len(c) for c in chunks)
        if self.fd.connected and not self.closed and not self.halfclosed:
            for c in chunks:
                self.written += c
            if n and self.cur is not None:
                self.cur.wrote = True

    def write(self, n):
        data = self.fresh(n)
        self._account([data])
        self.fd.write(data)

    def write_seq(self, sizes):
        chunks, s = [], len(self.written) + self.base
        for n in sizes:
            chunks.append(bytes(((s + i) % 250) + 1 for i in range(n)))
            s += n
        self._account(chunks)
        self.fd.writeSequence(chunks)

    def register(self, streaming, script):
        p = Producer(self, streaming, script)
        self.cur = p       # set first: a pull producer is resumed (and may write) inside registerProducer
        self.fd.registerProducer(p, streaming)

    def unregister(self):
        self.cur = None
        self.fd.unregisterProducer()

    def lose(self):
        if self.lose_mark is None:
            self.lose_mark = len(self.written)
        self.fd.loseConnection()

    # ---- things the OS / the descriptor report
    def os_write(self, data):
        n = len(data)
        if self.closed or self.halfclosed:
            if n:
                self.bad.append(("bytes-offered-to-os-after-close", "writeSomeData(%d bytes) after %s" % (
                    n, "close" if self.closed else "half-close")))
            return 0
        if n == 0:
            return 0
        unsent = len(self.written) - self.accepted
        if n < unsent:
            self.flags.add("two-level-buffer")
        c = self.ch.choose(min(n, 8) + 1, "accept")
        k = n if c == 0 else c - 1
        if k < n:
            self.partial += 1
            self.flags.add("zero-accept" if k == 0 else "partial-accept")
        got = data[:k]
        exp = bytes(self.written[self.accepted:self.accepted + k])
        if got != exp:
            whole = bytes(self.written)
            at = whole.find(got) if got else -1
            if len(got) > len(exp) and got[:len(exp)] == exp:
                kind = "bytes-never-written-handed-to-os"
            elif at >= 0 and at > self.accepted:
                kind = "bytes-skipped"
            elif at >= 0:
                kind = "bytes-duplicated"
            else:
                kind = "bytes-corrupted"
            self.bad.append((kind, "OS accepted %r at stream offset %d, application wrote %r there" % (
                got, self.accepted, exp)))
        self.accepted += k
        return k

    def half_closed(self):
        self.flags.add("half-closed")
        if not self.losew:
            self.bad.append(("half-close-without-request", "_closeWriteConnection without loseWriteConnection"))
        if self.accepted < len(self.written):
            self.bad.append(("half-close-before-flush", "write side closed with %d of %d bytes handed over" % (
                self.accepted, len(self.written))))
        self.halfclosed = True

    def closing(self, how):
        if self.closed:
            return
        self.closed = True
        self.flags.add("closed")
        if self.lose_mark is None:
            self.bad.append(("closed-without-loseConnection", "connection closed (%s) but loseConnection was never called" % how))
            return
        if self.accepted < len(self.written):
            if self.accepted < self.lose_mark:
                self.bad.append(("closed-before-flush:written-before-loseConnection",
                                 "closed with %d bytes handed over; %d were written before loseConnection" % (
                                     self.accepted, self.lose_mark)))
            else:
                self.bad.append(("closed-before-flush:written-after-loseConnection",
                                 "closed with %d of %d bytes handed over (loseConnection at %d)" % (
                                     self.accepted, len(self.written), self.lose_mark)))
        if self.cur is not None and not self.cur.streaming:
            self.bad.append(("closed-while-pull-producer-registered", "closed by %s with a non-streaming producer registered" % how))

    # ---- harness-level operations
    def do_write(self):
        r = self.fd.doWrite()
        if r is not None:
            # what every reactor does with a non-None result
            self.closing("doWrite result")
            self.reactor.removeReader(self.fd)
            self.reactor.removeWriter(self.fd)
            from twisted.python.failure import Failure
            self.fd.connectionLost(Failure(r) if isinstance(r, Exception) else Failure(Exception(r)))

    def apply(self, op):
        self.ops.append(op)
        k = op[0]
        if k == "w":
            self.write(op[1])
        elif k == "ws":
            self.write_seq(op[1])
        elif k == "regpull":
            self.register(False, PULL[op[1]])
        elif k == "regpush":
            self.register(True, PUSH[op[1]])
        elif k == "unreg":
            self.unregister()
        elif k == "lose":
            self.lose()
        elif k == "losew":
            self.losew = True
            self.fd.loseWriteConnection()
        elif k == "dw":
            self.do_write()
        elif k == "pp":
            self.fd.pauseProducing()
        elif k == "rp":
            self.fd.resumeProducing()
        self.check()

    def check(self):
        """Invariants at the end of a harness-level operation."""
        unsent = len(self.written) - self.accepted
        if not self.closed:
            if unsent and self.fd not in self.reactor.writers:
                self.bad.append(("buffered-bytes-but-not-registered-as-writer",
                                 "%d bytes buffered, descriptor not in the reactor's writer set after %r" % (unsent, self.ops[-1:])))
            p = self.cur
            if p is not None and p.streaming and p.state != "stopped":
                if unsent > BUFFER_SIZE and p.wrote and p.state != "paused":
                    self.bad.append(("push-producer-not-paused-over-buffer-size",
                                     "%d > bufferSize=%d bytes buffered, producer %s" % (unsent, BUFFER_SIZE, p.state)))
                if unsent == 0 and p.state == "paused":
                    self.bad.append(("push-producer-not-resumed-after-drain", "buffer empty, producer still paused"))
            if unsent > BUFFER_SIZE:
                self.flags.add("over-buffer-size")
            if self.lose_mark is not None and (unsent or (p is not None and not p.streaming)):
                self.flags.add("close-deferred")

    def menu(self, ext):
        m = []
        if not self.halfclosed:
            m += [("w", 1), ("w", 3), ("w", 5), ("ws", (1, 2))]
            if ext:
                m.append(("ws", (0, 2)))
        if self.cur is None and not self.halfclosed:
            m += [("regpull", "A"), ("regpull", "B"), ("regpush", "Q"), ("regpush", "E")]
        else:
            m.append(("unreg",))
        if self.lose_mark is None:
            m.append(("lose",))
        if not self.losew:
            m.append(("losew",))
        if self.fd in self.reactor.writers:
            m.append(("dw",))
        if ext:
            m += [("pp",), ("rp",)]
        return m


def run(ch, depth, ext, base):
    env = Env(ch, base)
    for _ in range(depth):
        m = env.menu(ext)
        i = ch.choose(len(m) + 1, "op", free=True)
        if i == 0:
            break
        env.apply(m[i - 1])
        if env.closed or env.bad:
            break
    n = 0
    while not env.closed and not env.bad and env.fd in env.reactor.writers and n < 14:
        env.apply(("dw",))
        n += 1
    if n >= 14:
        env.flags.add("drain-limit")
    return env


CONFIGS = {"quick": [(5, False, 1, 2), (4, False, 2, 2)],
           "thorough": [(6, False, 1, 3), (5, True, 1, 3), (5, False, 2, 3), (4, True, 2, 2)]}     # depth, extended alphabet, deviation bound, shard level


def shards(tier, seed):
    """Leaves of the operation-choice tree cut at ``level`` (only free = operation choices are expanded)."""
    out = []
    for ci, (depth, ext, bound, level) in enumerate(CONFIGS[tier]):
        work = [[]]
        while work:
            pre = work.pop()
            ch = Chooser(pre)
            run(ch, depth, ext, 0)
            if len(pre) >= level or len(ch.trace) <= len(pre) or not ch.trace[len(pre)][2]:
                out.append([ci, pre])
                continue
            for alt in range(ch.trace[len(pre)][0]):
                work.append(pre + [alt])
    return out


def run_shard(shard, tier, seed):
    ci, prefix = shard
    depth, ext, bound, _level = CONFIGS[tier][ci]
    base = (seed * 37) % 200
    st = Stats()
    for ch, env in explore(lambda c: run(c, depth, ext, base), bound=bound, prefix=prefix):
        st.evaluations += 1
        for f in env.flags:
            st.outcome(f)
        if env.flags & {"zero-accept", "partial-accept", "two-level-buffer", "paused", "push-resumed", "close-deferred"}:
            st.nt(hash((ci, tuple(env.ops), tuple(sorted(env.flags)))))
        if env.partial:
            st.count("executions_with_short_write")
        if "drain-limit" in env.flags:
            st.count("drain_limit_hit")
        if env.bad:
            w = {"config": [depth, ext, base], "choices": ch.choices, "ops": env.ops}
            seen = set()
            for sig, detail in env.bad:
                if sig not in seen:
                    seen.add(sig)
                    st.violation("FileDescriptor:" + sig, {"detail": detail, "ops": repr(env.ops)}, w)
        elif st.evaluations % 50021 == 1:
            st.sample({"ops": repr(env.ops), "choices": ch.choices})
    return st


def replay(w):
    depth, ext, base = w["config"]
    ch = Chooser(w["choices"])
    env = run(ch, depth, ext, base)
    out, seen = [], set()
    for sig, detail in env.bad:
        if sig not in seen:
            seen.add(sig)
            out.append(("FileDescriptor:" + sig, detail))
    return out
