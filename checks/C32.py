"""C32 DNS messages round-trip through the wire format.

Message specs are plain data (lists / bytes / ints).  From one spec the check
builds (1) the real twisted.names.dns objects and (2), separately, the content an
RFC 1035 reader must see.  The real encoder's output is then read back by the
real decoder (compared with the original objects by Twisted's own ``==``) and by
the independent reader in checks/_dnswire.py (compared with the spec).
"""
from __future__ import annotations
import itertools
from mc.runner import Stats
from checks import _dnswire as W

ID = "C32"
LEVEL = "exploration"
TECHNIQUE = "bounded-exhaustive enumeration of message specs; round trip + independent RFC 1035 reader"
RULE = ("every message spec of the families below is built as real dns.Message/_EDNSMessage objects, encoded with the "
        "real encoder, decoded with the real decoder (Twisted == against the original) and read by an independent "
        "RFC 1035 reader (compared with the spec, names case-insensitively). Families: H all header flag/opcode/rcode/id "
        "combinations; R1 every Record_* class x boundary field variants x name pattern x section x class/ttl boundaries; "
        "R2/R3 all ordered pairs/triples of record classes; N every sequence of 3 (thorough 4) names from a pool built for "
        "compression (shared suffixes, case variants, repeated labels, 63-byte labels, 255-octet name, root, labels holding "
        "0x00/0xc0 bytes) in 10 placement templates (compressible and non-compressible rdata names); B names first written "
        "at offsets 0x3ff0..0xff00 around the 14-bit pointer limit 0x4000, and messages of exactly 65535 octets; E _EDNSMessage/OPT field boundaries; T every maxSize from 12 "
        "to len+1 for a set of messages (within limit, TC set, decodes to a prefix); U unrepresentable names (64..255-byte "
        "labels, empty label, >255 octets) in 8 positions must be refused. non-trivial = message in which a compression "
        "pointer was emitted, a truncation cut fell strictly inside an item, or a name was refused")
BOUNDS = {
    "quick": "<=3 records per section, 15-name pool ^3 x 10 templates, all record-class pairs and triples, "
             "truncation at every size of 1.2k messages",
    "thorough": "15-name pool ^4 x 10 templates, triples x 2 name patterns, truncation at every size of all R1 messages",
}
ASSUMPTIONS = [
    "the independent reader (checks/_dnswire.py, hand-written from RFC 1035/2782/2874/2915/4255/2845/6891) stands in for dnspython, which is not installable",
    "Message.maxSize is a local encoding parameter (decode resets it to 0), so round-trip messages are built with maxSize=0; "
    "RRHeader.auth and payload.ttl are derived from the message AA flag / header TTL on decode, so specs set them consistently",
    "names are compared ASCII-case-insensitively by both oracles (DNS semantics); trailing-dot spellings are outside the alphabet",
    "_EDNSMessage cases stay below 512 octets: whether _EDNSMessage.maxSize (advertised payload size) is also its own encoding limit is not decided by the statement",
]
MIN = {"quick": {"evaluations": 128000, "nontrivial": 116000, "outcomes": 10},
       "thorough": {"evaluations": 560000, "nontrivial": 540000, "outcomes": 10}}

L63 = b"l" * 63
M63 = b"m" * 63
MAXNAME = L63 + b"." + M63 + b"." + L63 + b"." + b"k" * 61            # 255 octets on the wire
POOL = [b"", b"a", b"b.a", b"c.b.a", b"B.A", b"x.b.a", b"a.a", b"a.a.a", b"a.b", L63, b"a." + L63, L63 + b".a",
        MAXNAME, b"\xc0\x0c.a", b"\x00.b.a"]
NAME_PATTERNS = [
    (b"h.example", b"h.example", b"m.example"),
    (b"h.example", b"ns.h.example", b"H.EXAMPLE"),
    (b"", b"", b"x"),
    (L63 + b".x", b"y." + L63 + b".x", MAXNAME),
]
V6A = bytes(range(1, 17))
V6S = [V6A, b"\x00" * 16, b"\xff" * 16, b"\x00" * 15 + b"\x01", b"\x80" + b"\x00" * 15]
V4S = [b"\x01\x02\x03\x04", b"\x00\x00\x00\x00", b"\xff\xff\xff\xff", b"\x7f\x00\x00\x01"]
U16 = [0, 65535]
NAMEF = ["N0", "N1"]
SIMPLE = {"NS": 2, "MD": 3, "MF": 4, "CNAME": 5, "MB": 7, "MG": 8, "MR": 9, "PTR": 12, "DNAME": 39}
TYPES = dict(SIMPLE, A=1, SOA=6, NULL=10, WKS=11, HINFO=13, MINFO=14, MX=15, TXT=16, RP=17, AFSDB=18, AAAA=28, SRV=33,
             NAPTR=35, A6=38, SSHFP=44, SPF=99, TSIG=250, OPT=41)
TXTS = [[b"text"], [], [b""], [b"a" * 255], [b"a", b"", b"bc"], [b"\x00\xff."]]

FIELDS = {
    "A": [V4S],
    "SOA": [NAMEF, ["N1", "N0"], [1, 0, 2 ** 32 - 1, 2 ** 31], [2, 0, 2 ** 31 - 1], [3, 0, 2 ** 31 - 1],
            [4, 0, 2 ** 31 - 1], [5, 0, 2 ** 32 - 1, 2 ** 31]],
    "NULL": [[b"payload", b"", b"\x00", b"\xc0\x0c", b"n" * 255]],
    "WKS": [V4S, [6, 0, 255], [b"\x00\x01", b"", b"\xff" * 5]],
    "HINFO": [[b"cpu", b"", b"C" * 255, b"CpU"], [b"os", b"", b"o" * 255, b"Os"]],
    "MINFO": [NAMEF, ["N1", "N0"]],
    "MX": [[10] + U16, NAMEF],
    "TXT": [TXTS],
    "SPF": [TXTS],
    "RP": [NAMEF, ["N1", "N0"]],
    "AFSDB": [[1] + U16, NAMEF],
    "AAAA": [V6S],
    "SRV": [[1] + U16, [2] + U16, [3] + U16, NAMEF],
    "NAPTR": [[1] + U16, [2] + U16, [b"U", b"", b"f" * 255], [b"E2U+sip", b"", b"s" * 255],
              [b"!^.*$!sip:x@y!", b"", b"r" * 255], NAMEF + ["ROOT"]],
    "A6": [[64, 0, 8, 120, 128, 1, 7, 9, 63, 121, 127], [V6A, b"\xff" * 16], NAMEF],
    "SSHFP": [[1, 0, 255], [2, 0, 255], [b"\x12" * 20, b"", b"\xab" * 32]],
    "TSIG": [NAMEF, [1400000000, 0, 2 ** 48 - 1, 2 ** 32], [300] + U16, [b"m" * 16, b"", b"M" * 32], [0x1234] + U16,
             [0, 16, 17, 18, 65535], [b"", b"\x00\x00\x00\x00\x00\x01"]],
    "UNKNOWN": [[65280, 19, 0, 65535, 249, 40], [b"opaque", b"", b"\x00\x00\x00", b"\xc0\x0c"]],
}
for _k in SIMPLE:
    FIELDS[_k] = [NAMEF]
KINDS = sorted(FIELDS)
NAMEPOS = {"SOA": (0, 1), "MINFO": (0, 1), "RP": (0, 1), "MX": (1,), "AFSDB": (1,), "SRV": (3,), "NAPTR": (5,),
           "A6": (2,), "TSIG": (0,)}
for _k in SIMPLE:
    NAMEPOS[_k] = (0,)


def blob(x):
    if isinstance(x, (list, tuple)) and len(x) == 3 and x[0] == "rep":
        return bytes(x[1]) * x[2]
    return x


def dotted(b4):
    return "%d.%d.%d.%d" % tuple(b4)


def colons(b16):
    return ":".join("%x" % ((b16[i] << 8) | b16[i + 1]) for i in range(0, 16, 2))


def a6_suffix(plen, raw16):
    """Zero the prefix bits so that the field value is in range for this prefixLen."""
    v = int.from_bytes(raw16, "big") & ((1 << (128 - plen)) - 1)
    return v.to_bytes(16, "big")


# ---------------------------------------------------------------- spec -> twisted objects
def fields(kind, f):
    f = [blob(x) for x in f]
    if kind in ("TXT", "SPF"):
        f[0] = [blob(x) for x in f[0]]
    return f


def build_payload(dns, kind, f, ttl):
    f = fields(kind, f)
    if kind in SIMPLE:
        return getattr(dns, "Record_" + kind)(f[0], ttl=ttl)
    if kind == "A":
        return dns.Record_A(dotted(f[0]), ttl=ttl)
    if kind == "SOA":
        return dns.Record_SOA(mname=f[0], rname=f[1], serial=f[2], refresh=f[3], retry=f[4], expire=f[5],
                              minimum=f[6], ttl=ttl)
    if kind == "NULL":
        return dns.Record_NULL(f[0], ttl=ttl)
    if kind == "WKS":
        return dns.Record_WKS(dotted(f[0]), f[1], f[2], ttl=ttl)
    if kind == "HINFO":
        return dns.Record_HINFO(f[0], f[1], ttl=ttl)
    if kind == "MINFO":
        return dns.Record_MINFO(f[0], f[1], ttl=ttl)
    if kind == "MX":
        return dns.Record_MX(f[0], f[1], ttl=ttl)
    if kind == "TXT":
        return dns.Record_TXT(*f[0], ttl=ttl)
    if kind == "SPF":
        return dns.Record_SPF(*f[0], ttl=ttl)
    if kind == "RP":
        return dns.Record_RP(f[0], f[1], ttl=ttl)
    if kind == "AFSDB":
        return dns.Record_AFSDB(f[0], f[1], ttl=ttl)
    if kind == "AAAA":
        return dns.Record_AAAA(colons(f[0]), ttl=ttl)
    if kind == "SRV":
        return dns.Record_SRV(f[0], f[1], f[2], f[3], ttl=ttl)
    if kind == "NAPTR":
        return dns.Record_NAPTR(f[0], f[1], f[2], f[3], f[4], f[5], ttl=ttl)
    if kind == "A6":
        return dns.Record_A6(f[0], colons(a6_suffix(f[0], f[1])), f[2] if f[0] else b"", ttl=ttl)
    if kind == "SSHFP":
        return dns.Record_SSHFP(f[0], f[1], f[2], ttl=ttl)
    if kind == "TSIG":
        return dns.Record_TSIG(algorithm=f[0], timeSigned=f[1], fudge=f[2], MAC=f[3], originalID=f[4], error=f[5],
                               otherData=f[6], ttl=ttl)
    if kind == "UNKNOWN":
        return dns.UnknownRecord(f[1], ttl=ttl)
    raise KeyError(kind)


def build_rr(dns, rr, auth):
    owner, cls, ttl, kind, f = rr
    if kind == "OPT":
        return dns._OPTHeader(udpPayloadSize=f[0], extendedRCODE=f[1], version=f[2], dnssecOK=bool(f[3]),
                              options=[dns._OPTVariableOption(c, blob(d)) for c, d in f[4]])
    payload = build_payload(dns, kind, f, ttl)
    rtype = f[0] if kind == "UNKNOWN" else TYPES[kind]
    return dns.RRHeader(blob(owner), rtype, cls, ttl, payload, auth=bool(auth))


HDR = ("id", "answer", "opCode", "recDes", "recAv", "auth", "rCode", "trunc", "authenticData", "checkingDisabled")


def build_message(dns, spec, maxSize=0):
    h = spec.get("hdr", {})
    m = dns.Message(maxSize=maxSize, **{k: h[k] for k in HDR if k in h})
    for name, qtype, qcls in spec.get("q", ()):
        m.queries.append(dns.Query(blob(name), qtype, qcls))
    for sec, attr in (("an", "answers"), ("ns", "authority"), ("ar", "additional")):
        for rr in spec.get(sec, ()):
            getattr(m, attr).append(build_rr(dns, rr, h.get("auth", 0)))
    return m


# ---------------------------------------------------------------- spec -> content an RFC reader must see
def nm(x):
    return W.name_from_text(blob(x))


def expected_rdata(kind, f):
    f = fields(kind, f)
    if kind in SIMPLE:
        return (nm(f[0]),)
    if kind in ("A", "AAAA", "NULL"):
        return (f[0],)
    if kind == "SOA":
        return (nm(f[0]), nm(f[1]), f[2], f[3], f[4], f[5], f[6])
    if kind in ("WKS", "SSHFP"):
        return (f[0], f[1], f[2])
    if kind == "HINFO":
        return (f[0], f[1])
    if kind in ("MINFO", "RP"):
        return (nm(f[0]), nm(f[1]))
    if kind in ("MX", "AFSDB"):
        return (f[0], nm(f[1]))
    if kind in ("TXT", "SPF"):
        return (tuple(f[0]),)
    if kind == "SRV":
        return (f[0], f[1], f[2], nm(f[3]))
    if kind == "NAPTR":
        return (f[0], f[1], f[2], f[3], f[4], nm(f[5]))
    if kind == "A6":
        n = (128 - f[0] + 7) // 8
        return (f[0], a6_suffix(f[0], f[1])[16 - n:], nm(f[2]) if f[0] else None)
    if kind == "TSIG":
        return (nm(f[0]), f[1], f[2], f[3], f[4], f[5], f[6])
    if kind == "UNKNOWN":
        return (f[1],)
    raise KeyError(kind)


def expected_rr(rr):
    owner, cls, ttl, kind, f = rr
    if kind == "OPT":
        return (W.Nm(()), 41, f[0], (f[1] << 24) | (f[2] << 16) | (int(bool(f[3])) << 15),
                (tuple((c, blob(d)) for c, d in f[4]),))
    rtype = f[0] if kind == "UNKNOWN" else TYPES[kind]
    return (nm(owner), rtype, cls, ttl, expected_rdata(kind, f))


def expected_sections(spec):
    return [[(nm(n), t, c) for n, t, c in spec.get("q", ())]] + \
           [[expected_rr(rr) for rr in spec.get(sec, ())] for sec in ("an", "ns", "ar")]


def rr_kind(rr):
    k = rr[3]
    if k == "A6" and rr[4][0] % 8:
        return "A6[prefixLen%8!=0]"
    return k


# ---------------------------------------------------------------- the oracles
def srepr(x):
    """repr() of Twisted DNS objects decodes names as ASCII and may raise; printing is not part of the property."""
    try:
        return repr(x)
    except Exception:
        try:
            return "<%s %r>" % (type(x).__name__, sorted(vars(x).items()))
        except Exception:
            return "<unprintable %s>" % type(x).__name__


# Failure shapes with one known root cause are reported under one signature each (AUTHORING rule 4).
COLLAPSE = {
    "single:A6[prefixLen%8!=0]": "Record_A6:prefixLen-not-multiple-of-8:suffix-octets-dropped",
    "big-message:name-first-written-at-offset>=0x4000-then-repeated": "Name.encode:compression-pointer-to-offset>=0x4000",
}


def finalize(tag, out):
    if out and tag in COLLAPSE:
        return [(COLLAPSE[tag], "; ".join("%s: %s" % (s[len(tag) + 1:], d) for s, d in out)[:900])]
    return out


def allowed_refusal(e):
    return isinstance(e, Exception)


def compare_sections(dns, m, m2):
    """First difference between the original and the decoded message, by Twisted's own ==."""
    for a in HDR:
        if not (getattr(m2, a) == getattr(m, a)):
            return "header." + a, "%s: %s != %s" % (a, srepr(getattr(m2, a)), srepr(getattr(m, a)))
    for attr in ("queries", "answers", "authority", "additional"):
        o, d = getattr(m, attr), getattr(m2, attr)
        for i in range(min(len(o), len(d))):
            x, y = o[i], d[i]
            if isinstance(x, dns._OPTHeader) and isinstance(y, dns.RRHeader) and y.type == dns.OPT:
                try:
                    y = dns._OPTHeader.fromRRHeader(y)
                except Exception as e:  # a defect of the OPT reader, reported as a difference
                    return attr + "[OPT]", "fromRRHeader raised %r" % (e,)
            if not (y == x):
                return "%s[%d]" % (attr, i), "decoded %s, original %s" % (srepr(y), srepr(x))
        if len(o) != len(d):
            return attr + ".count", "%d decoded, %d original" % (len(d), len(o))
    return None


def where_kind(spec, where):
    """Map 'answers[1]' to the record class at that place (for a narrow signature)."""
    sec = {"queries": "q", "answers": "an", "authority": "ns", "additional": "ar"}
    name = where.split("[")[0].split(".")[0]
    if name not in sec:
        return where
    if where.endswith(".count"):
        return name + ".count"
    if "[" in where and name != "queries":
        idx = where[where.index("[") + 1:-1]
        if idx.isdigit() and int(idx) < len(spec.get(sec[name], ())):
            return rr_kind(spec[sec[name]][int(idx)])
        return idx
    return name


def check_roundtrip(dns, spec, tag, info):
    """-> list of (sig, detail).  ``info`` receives facts for the coverage statistics."""
    out = []
    try:
        m = build_message(dns, spec)
    except Exception as e:
        if type(e).__module__.startswith("checks") or isinstance(e, KeyError):
            raise
        return [("%s:constructor-refuses-in-range-value:%s" % (tag, type(e).__name__), repr(e))]
    try:
        wire = m.toStr()
    except Exception as e:
        return [("%s:encode-raises:%s" % (tag, type(e).__name__), repr(e))]
    info["len"] = len(wire)
    info["wire"] = wire
    # (1) Twisted reads its own encoding back
    m2 = dns.Message()
    try:
        m2.fromStr(wire)
    except Exception as e:
        out.append(("%s:own-decode-raises:%s" % (tag, type(e).__name__), repr(e)))
        m2 = None
    if m2 is not None:
        m2.maxSize = m.maxSize
        diff = compare_sections(dns, m, m2)
        has_opt = any(rr[3] == "OPT" for rr in spec.get("ar", ()))
        if diff is None and not has_opt and not (m2 == m):
            diff = ("message", "Message.__eq__ is false although every part compares equal")
        if diff is not None:
            out.append(("%s:roundtrip-unequal:%s" % (tag, where_kind(spec, diff[0])), diff[1][:400]))
    # (2) an independent reader sees the spec's content
    try:
        p = W.parse_message(wire)
    except W.WireError as e:
        out.append(("%s:independent-reader-rejects:%s" % (tag, e.kind), str(e)))
        return out
    info["pointers"] = p["pointers"]
    exp = expected_sections(spec)
    h = spec.get("hdr", {})
    for a in HDR:
        want = h.get(a, 0)
        if p["header"][a] != want:
            out.append(("%s:independent-reader-differs:header.%s" % (tag, a), "%r != %r" % (p["header"][a], want)))
            return out
    if tuple(p["header"]["counts"]) != tuple(len(s) for s in exp):
        out.append(("%s:independent-reader-differs:counts" % tag, "%r" % (p["header"]["counts"],)))
        return out
    secnames = ("q", "an", "ns", "ar")
    for si in range(4):
        for i, (got, want) in enumerate(zip(p["sections"][si], exp[si])):
            if not W.same(got, want):
                kind = "query" if si == 0 else rr_kind(spec[secnames[si]][i])
                out.append(("%s:independent-reader-differs:%s" % (tag, kind), "read %r, spec %r" % (got, want)))
                return out
            if not W.exact_case(got, want):
                info["case_folded"] = True
    return out


def check_trunc(dns, spec, tag, k, info, cache=None):
    out = []
    if cache is None:
        cache = {}
    if "full" not in cache:
        cache["full"] = build_message(dns, spec).toStr()
        try:
            cache["ends"] = W.parse_message(cache["full"])["ends"]
        except W.WireError:
            cache["ends"] = None     # reported by the round-trip families; the Twisted-side clauses are still checked
    full = cache["full"]
    m = build_message(dns, spec, maxSize=k)
    try:
        wire = m.toStr()
    except Exception as e:
        return [("%s:encode-raises:%s" % (tag, type(e).__name__), repr(e))]
    over = len(full) > k
    info["over"] = over
    if len(wire) > k:
        return [("%s:encoded-larger-than-maxSize" % tag, "%d > %d" % (len(wire), k))]
    if not over:
        if wire != full:
            out.append(("%s:altered-although-within-limit" % tag, "maxSize %d, full length %d" % (k, len(full))))
        return out
    ends = cache["ends"]
    info["inside"] = ends is not None and k not in ends and k > 12
    if not (wire[2] >> 1 & 1):
        out.append(("%s:TC-flag-not-set-on-wire" % tag, "maxSize %d, full length %d" % (k, len(full))))
    orig = build_message(dns, spec)
    m2 = dns.Message()
    try:
        m2.fromStr(wire)
    except Exception as e:
        out.append(("%s:own-decode-of-truncated-raises:%s" % (tag, type(e).__name__), repr(e)))
        return out
    if not m2.trunc:
        out.append(("%s:decoded-without-TC" % tag, "maxSize %d" % k))
    o = orig.queries + orig.answers + orig.authority + orig.additional
    d = m2.queries + m2.answers + m2.authority + m2.additional
    secs_ok = all(len(getattr(m2, a)) <= len(getattr(orig, a)) for a in ("queries", "answers", "authority", "additional"))
    n_complete = sum(1 for e in ends or () if e <= k)
    if len(d) > len(o) or not secs_ok or not all(y == x for x, y in zip(o, d)):
        out.append(("%s:decoded-not-a-prefix" % tag, "maxSize %d: %s" % (k, srepr(d))))
    info["kept"] = (len(d), n_complete, len(o))
    # the independent reader must also find a prefix of the spec's records in it
    if ends is None:
        return out
    try:
        p = W.parse_message(wire, partial_ok=True)
    except W.WireError as e:
        out.append(("%s:independent-reader-rejects-truncated:%s" % (tag, e.kind), str(e)))
        return out
    flat_exp = [x for s in expected_sections(spec) for x in s]
    flat_got = [x for s in p["sections"] for x in s]
    if len(flat_got) > len(flat_exp) or not all(W.same(g, w) for g, w in zip(flat_got, flat_exp)):
        out.append(("%s:independent-reader-not-a-prefix" % tag, "maxSize %d" % k))
    return out


BAD_CLASSES = ["label-64..191-octets", "label-192..255-octets", "label>=256-octets", "empty-label", "name>255-octets"]
BAD_POS = ["query", "owner", "NS", "SOA.rname", "SRV.target", "NAPTR.replacement", "A6.prefix", "after-same-suffix"]


def bad_names():
    yield "label-64..191-octets", b"a" * 64
    yield "label-64..191-octets", b"w." + b"a" * 64 + b".x"
    yield "label-64..191-octets", b"a" * 65 + b".x"
    yield "label-64..191-octets", b"a" * 128
    yield "label-64..191-octets", b"x." + b"a" * 191
    yield "label-192..255-octets", b"a" * 192 + b".x"
    yield "label-192..255-octets", b"x." + b"a" * 193
    yield "label-192..255-octets", b"a" * 255
    yield "label>=256-octets", b"a" * 256 + b".x"
    yield "label>=256-octets", b"x." + b"a" * 300
    yield "empty-label", b"a..b"
    yield "empty-label", b".a"
    yield "empty-label", b"a.b..c"
    yield "name>255-octets", L63 + b"." + M63 + b"." + L63 + b"." + b"k" * 62          # 256 octets
    yield "name>255-octets", b".".join([L63] * 5)
    yield "name>255-octets", b".".join([b"a"] * 128)                                    # 257 octets
    yield "name>255-octets", b".".join([b"ab"] * 85)                                    # 256 octets


def check_bad(dns, cls, name, pos):
    """A name that cannot be represented must be refused (by the constructor or by the encoder)."""
    spec = {"q": [], "an": []}
    if pos == "query":
        spec["q"] = [[name, 1, 1]]
    elif pos == "owner":
        spec["an"] = [[name, 1, 60, "A", [V4S[0]]]]
    elif pos == "NS":
        spec["an"] = [[b"h.example", 1, 60, "NS", [name]]]
    elif pos == "SOA.rname":
        spec["an"] = [[b"h.example", 1, 60, "SOA", [b"h.example", name, 1, 2, 3, 4, 5]]]
    elif pos == "SRV.target":
        spec["an"] = [[b"h.example", 1, 60, "SRV", [1, 2, 3, name]]]
    elif pos == "NAPTR.replacement":
        spec["an"] = [[b"h.example", 1, 60, "NAPTR", [1, 2, b"U", b"s", b"r", name]]]
    elif pos == "A6.prefix":
        spec["an"] = [[b"h.example", 1, 60, "A6", [64, V6A, name]]]
    elif pos == "after-same-suffix":
        # the valid tail of the bad name is already in the compression table
        tail = name.split(b".")[-1]
        spec["q"] = [[tail if 0 < len(tail) < 64 else b"x", 1, 1]]
        spec["an"] = [[name, 1, 60, "A", [V4S[0]]]]
    try:
        m = build_message(dns, spec)
        wire = m.toStr()
    except Exception:
        return [], "refused"
    return [("Name.encode:not-refused:%s" % cls,
             "name of %d bytes at %s encoded to %d octets without an error" % (len(name), pos, len(wire)))], "not-refused"


EDNS_ATTRS = ("id", "answer", "opCode", "auth", "trunc", "recDes", "recAv", "rCode", "ednsVersion", "dnssecOK",
              "authenticData", "checkingDisabled", "maxSize")


def check_edns(dns, e, tag, info):
    out = []
    kw = {k: e[k] for k in EDNS_ATTRS if k in e}
    for k in ("answer", "auth", "trunc", "recDes", "recAv", "dnssecOK", "authenticData", "checkingDisabled"):
        if k in kw:
            kw[k] = bool(kw[k])
    auth = kw.get("auth", False)
    m = dns._EDNSMessage(queries=[dns.Query(blob(n), t, c) for n, t, c in e.get("q", ())],
                         answers=[build_rr(dns, rr, auth) for rr in e.get("an", ())],
                         authority=[build_rr(dns, rr, auth) for rr in e.get("ns", ())],
                         additional=[build_rr(dns, rr, auth) for rr in e.get("ar", ())], **kw)
    try:
        wire = m.toStr()
    except Exception as ex:
        return [("%s:encode-raises:%s" % (tag, type(ex).__name__), repr(ex))]
    info["len"] = len(wire)
    if len(wire) > 512:
        raise AssertionError("EDNS case above 512 octets is outside the declared alphabet")
    m2 = dns._EDNSMessage()
    try:
        m2.fromStr(wire)
    except Exception as ex:
        return [("%s:own-decode-raises:%s" % (tag, type(ex).__name__), repr(ex))]
    if not (m2 == m):
        bad = [a for a in m.compareAttributes if not (getattr(m2, a) == getattr(m, a))]
        out.append(("%s:roundtrip-unequal:%s" % (tag, bad[0] if bad else "message"),
                    "%s != %s" % (srepr(getattr(m2, bad[0], None)), srepr(getattr(m, bad[0], None))) if bad else ""))
    try:
        p = W.parse_message(wire)
    except W.WireError as ex:
        out.append(("%s:independent-reader-rejects:%s" % (tag, ex.kind), str(ex)))
        return out
    info["pointers"] = p["pointers"]
    ver = e.get("ednsVersion", 0)
    rcode = e.get("rCode", 0)
    spec = {"q": e.get("q", []), "an": e.get("an", []), "ns": e.get("ns", []), "ar": list(e.get("ar", []))}
    if ver is not None:
        spec["ar"].append([b"", 0, 0, "OPT", [e.get("maxSize", 512), rcode >> 4, ver, e.get("dnssecOK", 0), []]])
    exp = expected_sections(spec)
    for a in HDR:
        want = int(e.get(a, 0)) if a != "rCode" else rcode & 15
        if p["header"][a] != want:
            out.append(("%s:independent-reader-differs:header.%s" % (tag, a), "%r != %r" % (p["header"][a], want)))
    for si in range(4):
        if len(p["sections"][si]) != len(exp[si]) or not all(W.same(g, w) for g, w in zip(p["sections"][si], exp[si])):
            out.append(("%s:independent-reader-differs:section%d" % (tag, si),
                        "read %r, spec %r" % (p["sections"][si], exp[si])))
            break
    return out


# ---------------------------------------------------------------- enumeration
def variants(kind):
    spec = FIELDS[kind]
    base = [alts[0] for alts in spec]
    seen = []
    cands = [base]
    for i, alts in enumerate(spec):
        for a in alts[1:]:
            v = list(base)
            v[i] = a
            cands.append(v)
    for pick in (-1, 1):
        cands.append([alts[pick if pick < len(alts) else -1] for alts in spec])
    for v in cands:
        if v not in seen:
            seen.append(v)
            yield v


def resolve(kind, f, pat):
    """Replace name placeholders by the names of a pattern."""
    f = list(f)
    for i in NAMEPOS.get(kind, ()):
        f[i] = {"N0": pat[1], "N1": pat[2], "ROOT": b""}.get(f[i], f[i])
    return f


def rr_of(kind, pat, f=None, owner=None, cls=1, ttl=3600):
    return [pat[0] if owner is None else owner, cls, ttl, kind, resolve(kind, f or next(variants(kind)), pat)]


def gen_H():
    flags = ("answer", "recDes", "recAv", "auth", "trunc", "authenticData", "checkingDisabled")
    for bits in itertools.product((0, 1), repeat=7):
        for op in (0, 1, 2, 5, 15):
            for rc in (0, 5, 15):
                for ident in (0, 1, 0x1234, 0xFFFF):
                    h = dict(zip(flags, bits), opCode=op, rCode=rc, id=ident)
                    yield {"k": "rt", "tag": "header", "msg": {
                        "hdr": h, "q": [[b"h.example", 1, 1]], "an": [rr_of("A", NAME_PATTERNS[0])]}}
    for qt in (1, 0, 255, 252, 65535):
        for qc in (1, 3, 255, 0, 65535):
            for nq in (0, 1, 2, 3):
                yield {"k": "rt", "tag": "query", "msg": {"hdr": {"id": 7}, "q": [[b"q%d.example" % i, qt, qc] for i in range(nq)]}}


def gen_R1(tier):
    for kind in KINDS:
        for pi, pat in enumerate(NAME_PATTERNS):
            for vi, f in enumerate(variants(kind)):
                for sec in ("an", "ns", "ar"):
                    rr = rr_of(kind, pat, f)
                    yield {"k": "rt", "tag": "single:" + rr_kind(rr), "msg": {"hdr": {"id": 1, "answer": 1},
                                                                              "q": [[pat[0], 255, 1]], sec: [rr]}}
                if vi == 0:
                    for cls, ttl in ((3, 3600), (255, 0), (0, 1), (65535, 2 ** 31 - 1), (1, 2 ** 31), (1, 2 ** 32 - 1)):
                        for auth in (0, 1):
                            yield {"k": "rt", "tag": "single:" + kind, "msg": {
                                "hdr": {"id": 2, "answer": 1, "auth": auth}, "an": [rr_of(kind, pat, f, cls=cls, ttl=ttl)]}}
    # EDNS OPT pseudo-records carried in a plain Message
    for udp in (512, 0, 4096, 65535):
        for ext in (0, 1, 255):
            for ver in (0, 1, 255):
                for do in (0, 1):
                    for opts in ([], [[3, b"nsid"]], [[0, b""], [65535, b"\x00" * 7]], [[8, ["rep", b"o", 300]]]):
                        yield {"k": "rt", "tag": "single:OPT", "msg": {
                            "hdr": {"id": 3}, "q": [[b"h.example", 1, 1]], "ar": [[b"", 0, 0, "OPT", [udp, ext, ver, do, opts]]]}}


def gen_R2():
    pats = NAME_PATTERNS[:2]
    for k1 in KINDS:
        for k2 in KINDS:
            for pi, pat in enumerate(pats):
                r1 = rr_of(k1, pat)
                r2 = rr_of(k2, (pat[2], pat[2], pat[1]))
                for layout in (("an", "an"), ("an", "ns"), ("ns", "ar")):
                    msg = {"hdr": {"id": 4, "answer": 1, "auth": pi}, "q": [[pat[0], 255, 1]], "an": [], "ns": [], "ar": []}
                    msg[layout[0]].append(r1)
                    msg[layout[1]].append(r2)
                    yield {"k": "rt", "tag": "pair", "msg": msg}


def gen_R3(tier):
    pats = NAME_PATTERNS[:1] if tier == "quick" else NAME_PATTERNS[:2]
    for k1 in KINDS:
        for k2 in KINDS:
            for k3 in KINDS:
                for pat in pats:
                    yield {"k": "rt", "tag": "triple", "msg": {
                        "hdr": {"id": 5, "answer": 1}, "an": [rr_of(k1, pat), rr_of(k2, (pat[1], pat[2], pat[0])),
                                                              rr_of(k3, (pat[2], pat[0], pat[1]))]}}


def a_rr(owner):
    return [owner, 1, 60, "A", [V4S[0]]]


def templates(n):
    """Placement templates for a name sequence n (len 3 or 4; a 4th name becomes an extra query/record)."""
    n1, n2, n3 = n[0], n[1], n[2]
    extra_q = [[n[3], 1, 1]] if len(n) > 3 else []
    extra_rr = [[n[3], 1, 60, "NS", [n[3]]]] if len(n) > 3 else []
    yield {"q": [[n1, 1, 1], [n2, 28, 1], [n3, 255, 1]] + extra_q}
    yield {"q": [[n1, 2, 1]], "an": [[n2, 1, 60, "NS", [n3]]] + extra_rr}
    yield {"an": [[n1, 1, 60, "SOA", [n2, n3, 1, 2, 3, 4, 5]]], "ns": [a_rr(n2)] + extra_rr}
    yield {"an": [[n1, 1, 60, "SRV", [1, 2, 3, n2]]], "ar": [a_rr(n2), [n3, 1, 60, "AAAA", [V6A]]] + extra_rr}
    yield {"q": extra_q, "an": [[n1, 1, 60, "MX", [1, n2]], [n1, 1, 60, "MX", [2, n3]]]}
    yield {"an": [[n1, 1, 60, "NAPTR", [1, 2, b"U", b"s", b"r", n2]]], "ns": [[n3, 1, 60, "CNAME", [n2]]] + extra_rr}
    yield {"an": [[n1, 1, 60, "A6", [64, V6A, n2]]], "ar": [[n2, 1, 60, "PTR", [n3]]] + extra_rr}
    yield {"an": [[n1, 1, 60, "RP", [n2, n3]]], "ns": [[n3, 1, 60, "MINFO", [n2, n1]]] + extra_rr}
    yield {"an": [[n1, 1, 60, "AFSDB", [1, n2]]] + extra_rr, "ar": [[n3, 255, 0, "TSIG", [n2, 1, 300, b"mac", 1, 0, b""]]]}
    yield {"q": [[n1, 5, 1]], "an": [[n1, 1, 60, "CNAME", [n2]], [n2, 1, 60, "DNAME", [n3]]],
           "ns": [[n3, 1, 60, "MB", [n1]]], "ar": [[n1, 1, 60, "MG", [n2]], [n2, 1, 60, "MR", [n3]]] + extra_rr}


def gen_N(tier):
    k = 3 if tier == "quick" else 4
    for seq in itertools.product(POOL, repeat=k):
        for ti, t in enumerate(templates(seq)):
            msg = dict(t)
            msg["hdr"] = {"id": 6, "answer": 1}
            yield {"k": "rt", "tag": "names:template%d" % ti, "msg": msg}


def gen_B():
    """Names first written around offset 0x4000 and later repeated; messages of exactly 65535 octets."""
    for target in (0x3FF0, 0x3FFD, 0x3FFE, 0x3FFF, 0x4000, 0x4001, 0x4002, 0x400C, 0x4100, 0x8000, 0xC000, 0xFF00):
        for kind in ("owner", "rdata"):
            # header 12 + owner "p" (3) + fixed 10 + pad  => the next record starts at 25 + pad
            # "late.example" is first written exactly at offset ``target``
            side = ">=" if target >= 0x4000 else "<"
            late = b"late.example"
            if kind == "owner":
                pads = [[b"p", 1, 60, "NULL", [["rep", b"x", target - 25]]]]
                rest = [a_rr(late), a_rr(late), a_rr(b"www." + late)]
            else:
                # root owner (1 octet) + fixed 10: the NS rdata name starts 11 octets into its record
                pads = [[b"p", 1, 60, "NULL", [["rep", b"x", target - 25 - 11]]]]
                rest = [[b"", 1, 60, "NS", [late]], [b"", 1, 60, "MX", [5, late]], a_rr(late)]
            yield {"k": "rt", "tag": "big-message:name-first-written-at-offset%s0x4000-then-repeated" % side,
                   "msg": {"hdr": {"id": 8, "answer": 1}, "an": pads + rest}, "name_at": target}
    yield {"k": "rt", "tag": "big-message:65535-octets", "msg": {"hdr": {"id": 9}, "an": [
        [b"p", 1, 60, "NULL", [["rep", b"x", 65510]]]]}}
    yield {"k": "rt", "tag": "big-message:65535-octets", "msg": {"hdr": {"id": 9}, "an": [
        [b"p", 1, 60, "UNKNOWN", [65280, ["rep", b"y", 65510]]]]}}
    yield {"k": "rt", "tag": "big-message:TXT-255x255", "msg": {"hdr": {"id": 9}, "an": [
        [b"p", 1, 60, "TXT", [[["rep", b"t", 255]] * 255]]]}}


def gen_E():
    rr = rr_of("MX", NAME_PATTERNS[0])
    flags = ("answer", "auth", "trunc", "recDes", "recAv", "authenticData", "checkingDisabled")
    for ver in (0, None, 1, 255):
        for do in ((0, 1) if ver is not None else (0,)):
            for ms in ((512, 513, 1232, 4096, 65535, 0) if ver is not None else (512,)):
                for rc in ((0, 1, 15, 16, 0x0FF0, 0x0FFF) if ver is not None else (0, 1, 15)):
                    for nbits in range(len(flags) + 1):
                        bits = [1 if i == nbits - 1 else 0 for i in range(len(flags))] if nbits else [0] * len(flags)
                        for secs in ({}, {"an": [rr]}, {"an": [rr], "ns": [rr], "ar": [rr_of("A", NAME_PATTERNS[0])]}):
                            e = dict(zip(flags, bits), id=0x4242, opCode=nbits % 16, rCode=rc, ednsVersion=ver,
                                     dnssecOK=do, maxSize=ms, q=[[b"h.example", 15, 1]])
                            e.update(secs)
                            yield {"k": "edns", "tag": "_EDNSMessage", "e": e}
    for bits in itertools.product((0, 1), repeat=7):
        yield {"k": "edns", "tag": "_EDNSMessage", "e": dict(zip(flags, bits), id=1, ednsVersion=0, dnssecOK=1, rCode=0x123,
                                                           maxSize=1024, q=[[b"h.example", 1, 1]], an=[rr])}


def trunc_sources(tier):
    """Messages whose every maxSize in [12, len+1] is tried."""
    for case in gen_R1(tier):
        msg = case["msg"]
        if case["tag"] == "single:OPT" or msg["hdr"]["id"] != 1:
            continue
        if tier == "quick" and "an" not in msg:
            continue
        yield case["tag"].replace("single:", "truncate:"), msg
    pat = NAME_PATTERNS[0]
    for k1 in KINDS:
        for k2 in ("A", "MX", "SOA", "TXT", "SRV"):
            yield "truncate:multi", {"hdr": {"id": 11, "answer": 1}, "q": [[pat[0], 255, 1]],
                                     "an": [rr_of(k1, pat), rr_of(k2, pat)], "ns": [rr_of(k2, pat)], "ar": [rr_of(k1, pat)]}
    for seq in itertools.product([b"a", b"b.a", b"x.b.a", b""], repeat=3):
        for ti, t in enumerate(templates(seq)):
            msg = dict(t)
            msg["hdr"] = {"id": 12, "answer": 1}
            yield "truncate:names", msg


def _flat(x):
    if isinstance(x, (list, tuple)):
        for y in x:
            for z in _flat(y):
                yield z
    else:
        yield x


def gen_U():
    for cls, name in bad_names():
        for pos in BAD_POS:
            yield {"k": "bad", "cls": cls, "name": name, "pos": pos}
    # controls: the largest representable names must NOT be refused (they are round-tripped in family N too)
    for name in (MAXNAME, L63, b".".join([b"a"] * 127)):
        for pos in BAD_POS[:7]:
            yield {"k": "good", "name": name, "pos": pos}


FAMILIES = {"H": 6, "R1": 8, "R2": 6, "R3": 16, "N": 24, "B": 4, "E": 4, "T": 32, "U": 1}


def shards(tier, seed):
    out = []
    for fam, n in FAMILIES.items():
        if tier == "thorough" and fam in ("N", "T", "R3"):
            n *= 3
        for j in range(n):
            out.append([fam, j, n])
    return out


def cases(fam, tier):
    if fam == "H":
        return gen_H()
    if fam == "R1":
        return gen_R1(tier)
    if fam == "R2":
        return gen_R2()
    if fam == "R3":
        return gen_R3(tier)
    if fam == "N":
        return gen_N(tier)
    if fam == "B":
        return gen_B()
    if fam == "E":
        return gen_E()
    if fam == "U":
        return gen_U()
    raise KeyError(fam)


def evaluate(case, st=None, cache=None):
    """Run one case on the real code; -> list of (sig, detail)."""
    from twisted.names import dns
    k = case["k"]
    info = {}
    if k == "rt":
        out = finalize(case["tag"], check_roundtrip(dns, case["msg"], case["tag"], info))
        if "name_at" in case and "wire" in info:      # the generator's layout arithmetic, not Twisted
            assert info["wire"][case["name_at"]:case["name_at"] + 5] == b"\x04late", "layout"
        if st is not None:
            st.outcome("round-trip-ok" if not out else "round-trip-differs")
            if info.get("pointers"):
                st.outcome("compression-pointers-emitted")
                st.count("messages_with_pointers")
            else:
                st.outcome("no-compression")
            if info.get("case_folded"):
                st.outcome("name-case-folded-by-compression")
            if info.get("len", 0) > 0x4000:
                st.outcome("message-above-16k")
        return out, bool(info.get("pointers"))
    if k == "edns":
        out = check_edns(dns, case["e"], case["tag"], info)
        if st is not None:
            st.outcome("edns-round-trip-ok" if not out else "edns-round-trip-differs")
        return out, bool(info.get("pointers"))
    if k == "trunc":
        out = check_trunc(dns, case["msg"], case["tag"], case["maxSize"], info, cache)
        if st is not None:
            if not info.get("over"):
                st.outcome("fits-limit-unchanged")
            elif info.get("inside"):
                st.outcome("truncated-inside-an-item")
            else:
                st.outcome("truncated-at-item-boundary")
            kept = info.get("kept")
            if kept:
                st.outcome("truncated:kept-none" if kept[0] == 0 else "truncated:kept-some")
        return out, bool(info.get("inside"))
    if k == "bad":
        out, oc = check_bad(dns, case["cls"], blob(case["name"]), case["pos"])
        if st is not None:
            st.outcome("unrepresentable-name-" + oc)
        return out, oc == "refused"
    if k == "good":
        out, oc = check_bad(dns, "control", blob(case["name"]), case["pos"])
        if st is not None:
            st.outcome("largest-representable-name-" + ("accepted" if oc == "not-refused" else "refused"))
        if oc == "refused":
            return [("Name.encode:refuses-representable-name", "name of %d bytes at %s" % (len(case["name"]), case["pos"]))], False
        return [], False
    raise KeyError(k)


def run_shard(shard, tier, seed):
    fam, j, n = shard
    st = Stats()
    if fam == "T":
        i = 0
        for tag, msg in trunc_sources(tier):
            i += 1
            if i % n != j:
                continue
            from twisted.names import dns
            cache = {}
            full = len(build_message(dns, msg).toStr())
            for k in range(12, full + 2):
                case = {"k": "trunc", "tag": tag, "msg": msg, "maxSize": k}
                _one(st, case, ("T", i, k), cache)
        return st
    for i, case in enumerate(cases(fam, tier)):
        if i % n != j:
            continue
        _one(st, case, (fam, i))
    return st


def _one(st, case, key, cache=None):
    st.evaluations += 1
    out, nontrivial = evaluate(case, st, cache)
    if nontrivial:
        st.nt(key)
    if st.evaluations % 20011 == 1:
        st.sample(_brief(case))
    for sig, detail in out:
        st.violation(sig, detail, {"case": case})


def _brief(case):
    s = repr(case)
    return s if len(s) < 600 else s[:600] + "..."


def replay(w):
    out, _ = evaluate(w["case"])
    return out
