"""C34 RFC 1982 serial number arithmetic: every pair of a width against the RFC's three-line definition."""
from __future__ import annotations
from mc.runner import Stats

ID = "C34"
LEVEL = "exploration"
TECHNIQUE = "exhaustive enumeration of all pairs per width against the RFC 1982 definition"
RULE = ("for each width, every ordered pair (a, b) of ring values is built as real SerialNumber objects and <, >, ==, !=, "
        "<=, >= are compared with the RFC 1982 3.2 definition written on d = (b - a) mod 2^bits (less iff 0 < d < half, "
        "greater iff d > half, neither at d == half); b doubles as the addend n: a + n must equal (a + n) mod 2^bits, keep "
        "the width, compare greater than a for 0 < n <= 2^(bits-1)-1, and be refused (exception) for larger n. Small widths: "
        "all pairs; wide rings: a boundary set (0,1,2, quarter, half-2..half+2, three quarters, max-2..max) paired with "
        "itself, with the values 0..3, quarter, half-3..half+3, max-1, max ahead of each member, and with those distances as "
        "addends. non-trivial = pair at distance exactly half, or whose "
        "comparison/addition wraps around zero, or an addend at maxAdd / maxAdd+1")
BOUNDS = {"quick": "all pairs for widths 1..9; boundary pairs for widths 10..66, 127, 128, 256",
          "thorough": "all pairs for widths 1..11; boundary pairs for widths 12..130, 256, 512"}
ASSUMPTIONS = ["values are taken from the ring [0, 2^bits); the addend is a SerialNumber of the same width, which is the only "
               "addend type the class accepts"]
MIN = {"quick": {"evaluations": 255000, "nontrivial": 160000, "outcomes": 6},
       "thorough": {"evaluations": 3900000, "nontrivial": 2400000, "outcomes": 6}}


def ref(a, b, bits):
    """RFC 1982 3.2 on the distance d from a forward to b."""
    half = 1 << (bits - 1)
    d = (b - a) % (1 << bits)
    if d == 0:
        return "eq"
    if d < half:
        return "lt"          # a < b
    if d > half:
        return "gt"
    return "undefined"       # exactly half the ring apart


def check_pair(SN, a, b, bits):
    """-> (list of (sig, detail), class, nontrivial)"""
    out = []
    mod = 1 << bits
    half = 1 << (bits - 1)
    A, B = SN(a, serialBits=bits), SN(b, serialBits=bits)
    want = ref(a, b, bits)
    try:
        lt, gt, eq, ne, le, ge = A < B, A > B, A == B, A != B, A <= B, A >= B
    except Exception as e:
        return [("SerialNumber:comparison-raises:" + type(e).__name__, "%d,%d bits %d: %r" % (a, b, bits, e))], "raises", False
    for name, v in (("lt", lt), ("gt", gt), ("eq", eq), ("ne", ne), ("le", le), ("ge", ge)):
        if v is not True and v is not False:
            out.append(("SerialNumber:comparison-not-boolean:" + name, "%r for %d,%d bits %d" % (v, a, b, bits)))
    w = "bits=%d a=%d b=%d (distance %d, half %d)" % (bits, a, b, (b - a) % mod, half)
    if bool(lt) != (want == "lt"):
        out.append(("SerialNumber.__lt__:%s-pair-reported-%s" % (want, "less" if lt else "not-less"), w))
    if bool(gt) != (want == "gt"):
        out.append(("SerialNumber.__gt__:%s-pair-reported-%s" % (want, "greater" if gt else "not-greater"), w))
    if bool(eq) != (want == "eq"):
        out.append(("SerialNumber.__eq__:%s-pair-reported-%s" % (want, "equal" if eq else "unequal"), w))
    if bool(ne) == bool(eq):
        out.append(("SerialNumber.__ne__:disagrees-with-eq", w))
    if bool(le) != (bool(lt) or bool(eq)):
        out.append(("SerialNumber.__le__:disagrees-with-lt-or-eq", w + " le=%r lt=%r eq=%r" % (le, lt, eq)))
    if bool(ge) != (bool(gt) or bool(eq)):
        out.append(("SerialNumber.__ge__:disagrees-with-gt-or-eq", w + " ge=%r gt=%r eq=%r" % (ge, gt, eq)))
    if want != "undefined" and (bool(lt) + bool(gt) + bool(eq)) != 1:
        out.append(("SerialNumber:trichotomy-broken", w + " lt=%r eq=%r gt=%r" % (lt, eq, gt)))
    # addition: b is the addend n
    n = b
    max_add = half - 1
    w = "bits=%d s=%d n=%d (maxAdd %d)" % (bits, a, n, max_add)
    try:
        S = A + B
        refused = False
    except Exception:
        refused = True
    if n > max_add:
        if not refused:
            out.append(("SerialNumber.__add__:addend-above-maxAdd-accepted", w))
    elif refused:
        out.append(("SerialNumber.__add__:addend-in-range-refused", w))
    else:
        exp = (a + n) % mod
        if not isinstance(S, SN) or int(S) != exp or not (S == SN(exp, serialBits=bits)):
            out.append(("SerialNumber.__add__:wrong-sum", w + " got %r want %d" % (S, exp)))
        elif n > 0 and not (S > A and A < S and not (S < A) and not (S == A)):
            out.append(("SerialNumber.__add__:sum-not-greater-than-s", w))
        elif n == 0 and not (S == A):
            out.append(("SerialNumber.__add__:adding-zero-changes-value", w))
    wraps = (a + n >= mod) or (want == "lt" and b < a) or (want == "gt" and a < b)
    nontrivial = want == "undefined" or wraps or n in (max_add, max_add + 1)
    cls = want + ("/add-refused" if refused else "/add-ok")
    return out, cls, nontrivial


def boundary_pairs(bits):
    mod = 1 << bits
    half = mod >> 1
    base = sorted({0, 1, 2, mod >> 2, half - 2, half - 1, half, half + 1, half + 2, 3 * (mod >> 2), mod - 3, mod - 2, mod - 1})
    dist = sorted({0, 1, 2, 3, (mod >> 2), half - 3, half - 2, half - 1, half, half + 1, half + 2, half + 3, mod - 2, mod - 1})
    pairs = set()
    for a in base:
        for b in base:
            pairs.add((a % mod, b % mod))
        for d in dist:
            pairs.add((a % mod, (a + d) % mod))      # b at distance d ahead of a
            pairs.add((a % mod, d % mod))            # addend n = d
    return sorted(pairs)


def plan(tier):
    full = range(1, 10) if tier == "quick" else range(1, 12)
    wide = list(range(10, 67)) + [127, 128, 256] if tier == "quick" else list(range(12, 131)) + [256, 512]
    return list(full), wide


def shards(tier, seed):
    full, wide = plan(tier)
    out = []
    for bits in full:
        parts = 1 if bits <= 7 else (4 if bits <= 9 else 16)
        for j in range(parts):
            out.append(["full", bits, j, parts])
    for i in range(0, len(wide), 8):
        out.append(["wide", wide[i:i + 8]])
    return out


def run_shard(shard, tier, seed):
    from twisted.names._rfc1982 import SerialNumber as SN
    st = Stats()

    def one(a, b, bits):
        st.evaluations += 1
        out, cls, nontrivial = check_pair(SN, a, b, bits)
        st.outcome(cls)
        if nontrivial:
            st.nt((bits, a, b))
        for sig, detail in out:
            st.violation(sig, detail, {"bits": bits, "a": a, "b": b})

    if shard[0] == "full":
        _, bits, j, parts = shard
        n = 1 << bits
        for a in range(j, n, parts):
            for b in range(n):
                one(a, b, bits)
        st.sample({"bits": bits, "pairs": "all %d x %d (a = %d mod %d)" % (n, n, j, parts)})
    else:
        for bits in shard[1]:
            for a, b in boundary_pairs(bits):
                one(a, b, bits)
        st.sample({"bits": shard[1], "pairs": "%d boundary pairs per width" % len(boundary_pairs(shard[1][0]))})
    return st


def replay(w):
    from twisted.names._rfc1982 import SerialNumber as SN
    return check_pair(SN, w["a"], w["b"], w["bits"])[0]
