"""C01 Deferred callback chains: explicit-state search over real Deferreds, lock-step with a naive
recursive reference interpreter of the documented chaining rules."""
import itertools

from mc.bfs import bfs
from mc.runner import Stats

ID = "C01"
LEVEL = "model_checking"
TECHNIQUE = "explicit-state BFS over operation histories on real Deferreds + lock-step reference interpreter"
RULE = ("BFS over histories of {addCallback / addErrback / addBoth / addCallbacks(d_i); pause(d_i); unpause(d_i) "
        "(only after a pause); callback(d_i, fresh); errback(d_i, fresh)} on n real Deferreds.  What a callback "
        "does (return a fresh value / raise / return a Failure / return d_j, j != i; in the re-entrant families "
        "also: from inside the callback add one plain, logged callback with addCallback / addBoth to its own "
        "Deferred and then return a value or d_j, or add one to another Deferred d_j and return a value) is "
        "chosen when it runs: "
        "every operation that makes callbacks run is expanded into one transition per assignment of behaviours "
        "to the callbacks the reference says will run (each callback runs at most once, so this is exactly the "
        "set of programs with behaviours fixed at add time).  After every operation the per-Deferred "
        "invocation log (callback id, input token), every Deferred's current result and the ordered "
        "not-yet-run callbacks are compared with a recursive reference interpreter written in the check; a "
        "callback that starts while another callback of the same Deferred has not returned is a violation by "
        "itself.  "
        "States are merged on (real attributes, model state) up to token renaming and permutation of the "
        "Deferreds.  non-trivial = distinct canonical states whose history involved chaining on an "
        "unfired/paused/waiting Deferred, stealing a result, a continuation, a late/paused add, or an add made "
        "from inside a running callback")
BOUNDS = {
    "quick": "13 families, each one complete BFS (n Deferreds / add methods / behaviours besides return-d_j / max "
             "pending pairs per Deferred / depth): 2/ceb/vx/2/9, 2/ceb/vx/3/7, 2/addCallbacks(cb[,eb])/vx/3/8, "
             "2 (Deferred subclass)/cebp/vxf/2/6, 2/b/vx/2/10 with <=4 outstanding pauses, 3/ceb/vx/2/7, "
             "3/cebp/vxf/2/6, 3 (subclass)/cb/vx/2/8 (these three: <=3 pending pairs in total), "
             "3/b/v/2/10 with <=3 pauses, 4/b/v/1/9; re-entrant families (callbacks may add a plain callback from "
             "inside): 2/cb/vx + add-to-own(addCallback|addBoth) then value|d_j /2/7, 2/cb/v + add-to-own then "
             "value|d_j + add-to-other(addCallback|addBoth) /2/6, 3/b/v + addBoth-to-own then value|d_j + "
             "addBoth-to-other /2/7 (<=3 pending pairs in total); re-entrantly added callbacks return a value; "
             "<=2 outstanding user pauses otherwise",
    "thorough": "12 families: 2/ceb/vx/3/10, 2/addCallbacks/vxf/3/10, 2 (subclass)/cebp/vxf/3/7, 2/b/vx/3/14 with "
                "<=5 pauses, 3/ceb/vx/2/9, 3/cebp/vxf/2/7, 3 (subclass)/cb/vx/3/9, 3/b/v/3/14 with <=3 pauses, "
                "4/b/v/2/10; re-entrant families: 2/ceb/vx + add-to-own(addCallback|addBoth) then value|d_j /2/8 "
                "(added callbacks return or raise), 2/cb/v + add-to-own then value|d_j + add-to-other /2/8, 3/b/v + "
                "addBoth-to-own then value|d_j + addBoth-to-other /2/9 (<=4 pending pairs in total)",
}
ASSUMPTIONS = [
    "callbacks never fire or pause Deferreds themselves (the statement's programs fire 'in any order' from top "
    "level); the only re-entrancy covered is, in the *-reent families, one addCallback / addBoth per callback "
    "made from inside it, to its own or to another Deferred, and the callback added that way is not re-entrant "
    "itself; a callback never returns the Deferred it is attached to",
    "re-entrant add rule of the reference: a Deferred whose callback is executing does not start another of "
    "its callbacks -- the added callback is appended and runs after the executing one has returned, with what "
    "that one returned (or, if it returned a Deferred the chain must wait for, after that wait); an add made "
    "from inside a callback to a different Deferred is an ordinary add on that Deferred (runs at once iff that "
    "Deferred is fired, not paused/waiting and not itself inside a callback).  A callback that returns a "
    "Deferred which is itself inside a callback at that moment has no rule: the search stops there and "
    "accepts every behaviour",
    "programs that close a waits-on cycle (d_i waits on d_j which transitively waits on d_i) are outside the "
    "statement: the search stops there and accepts every behaviour",
    "reference rules: run pairs in order while not paused; success slot unless the current result is a "
    "Failure; raise -> Failure; a returned Deferred that has a plain result and is neither paused nor itself "
    "waiting gives its result away (keeps None), otherwise the outer Deferred waits (one pause) and resumes, "
    "before the inner Deferred's later callbacks, when the inner chain reaches that point",
    "canonical state = per Deferred (called, paused, result class, pending slots incl. continuations, "
    "waits-on) of the real object and of the model, minimised over permutations of the touched Deferreds; "
    "value tokens are dropped because every callback returns a fresh token and real==model tokens were "
    "verified in that state",
    "cross-Deferred interleaving of invocations is not compared (the statement orders callbacks per "
    "Deferred); pause counters are used for state merging only, not for the verdict",
]
MIN = {"quick": {"states": 157000, "nontrivial": 145000, "outcomes": 22, "transitions": 1715000},
       "thorough": {"states": 895000, "nontrivial": 847000, "outcomes": 22, "transitions": 18790000}}
LEVEL_TEXT = ("every operation history within the bound is executed on real twisted.internet.defer.Deferred "
              "objects and compared, step by step, with an independent recursive interpreter; no sampling")
LEVEL_NOTE = ("re-entrancy limited to one addCallback/addBoth per callback from inside it (own or other Deferred; "
              "no firing/pausing from inside callbacks), no self-returning callbacks, no waits-on cycles; "
              "small-scope bound")

KNOWN_STRANDED = "Deferred:callbacks-stranded-behind-paused-chained-Deferred"


def _fam(n, kinds, behs, pairs, depth, pauses=2, tpairs=99, sub=False, re=(), pbehs="v"):
    return dict(n=n, kinds=kinds, behs=behs, pairs=pairs, depth=depth, pauses=pauses, tpairs=tpairs, sub=sub,
                re=list(re), pbehs=pbehs)


# one BFS per family (cross-shard splitting of one BFS re-explores most states, measured 6x waste):
# kinds c=addCallback e=addErrback b=addBoth p=addCallbacks(cb, eb) n=addCallbacks(cb); sub=Deferred subclass;
# behs v=value x=raise f=return Failure (return d_j is always included); pauses/tpairs are totals over all Deferreds;
# re = re-entrant behaviours: from inside the callback add one plain callback with addCallback (c) / addBoth (b)
#      rcv rbv: to the own Deferred, then return a value     rcd rbd: to the own Deferred, then return d_j
#      ac ab:   to another Deferred d_j, then return a value
#      pbehs = what the callbacks added that way do when they run (v / x only: no second-order re-entrancy)
CFG = {
    "quick": {
        "2-deep": _fam(2, "ceb", "vx", 2, 9),
        "2-deep3": _fam(2, "ceb", "vx", 3, 7),
        "2-pairs": _fam(2, "np", "vx", 3, 8),
        "2-full": _fam(2, "cebp", "vxf", 2, 6, sub=True),
        "2-pauses": _fam(2, "b", "vx", 2, 10, pauses=4),
        "3-mid": _fam(3, "ceb", "vx", 2, 7, tpairs=3),
        "3-full": _fam(3, "cebp", "vxf", 2, 6, tpairs=3),
        "3-cb": _fam(3, "cb", "vx", 2, 8, tpairs=3, sub=True),
        "3-structure": _fam(3, "b", "v", 2, 10, pauses=3),
        "4-structure": _fam(4, "b", "v", 1, 9),
        "2-reent": _fam(2, "cb", "vx", 2, 7, re=("rcv", "rbv", "rcd", "rbd")),
        "2-reent-x": _fam(2, "cb", "v", 2, 6, re=("rcv", "rbv", "rcd", "rbd", "ac", "ab")),
        "3-reent": _fam(3, "b", "v", 2, 7, tpairs=3, re=("rbv", "rbd", "ab")),
    },
    "thorough": {
        "2-deep": _fam(2, "ceb", "vx", 3, 10),
        "2-pairs": _fam(2, "np", "vxf", 3, 10),
        "2-full": _fam(2, "cebp", "vxf", 3, 7, sub=True),
        "2-pauses": _fam(2, "b", "vx", 3, 14, pauses=5),
        "3-mid": _fam(3, "ceb", "vx", 2, 9),
        "3-full": _fam(3, "cebp", "vxf", 2, 7, tpairs=5),
        "3-cb": _fam(3, "cb", "vx", 3, 9, sub=True),
        "3-structure": _fam(3, "b", "v", 3, 14, pauses=3),
        "4-structure": _fam(4, "b", "v", 2, 10),
        "2-reent": _fam(2, "ceb", "vx", 2, 8, re=("rcv", "rbv", "rcd", "rbd"), pbehs="vx"),
        "2-reent-x": _fam(2, "cb", "v", 2, 8, re=("rcv", "rbv", "rcd", "rbd", "ac", "ab")),
        "3-reent": _fam(3, "b", "v", 2, 9, tpairs=4, re=("rbv", "rbd", "ab")),
    },
}

NO = object()


class TokErr(Exception):
    pass


class TokBaseErr(BaseException):
    """raised by odd-numbered callbacks: an exception that is not an Exception subclass
    must become a Failure exactly like any other"""


class Need(Exception):
    """the reference is about to run a callback whose behaviour is not chosen yet"""

    def __init__(self, cid, i, plain=False):
        self.cid, self.i, self.plain = cid, i, plain


# ---------------------------------------------------------------- reference interpreter

class MD:
    """Reference model of one Deferred."""
    __slots__ = ("fired", "upause", "wait", "result", "pending", "running")

    def __init__(self):
        self.fired = False
        self.upause = 0        # unmatched user pauses
        self.wait = None       # index of the Deferred this one waits on
        self.result = None     # None | ("ok", tok) | ("fail", tok) | ("def", j)
        self.pending = []      # ("pair", kind, cid_success, cid_error) | ("cont", waiter)
        self.running = False   # one of this Deferred's callbacks is executing right now (only during a step)

    def paused(self):
        return self.upause > 0 or self.wait is not None

    def copy(self):
        c = MD.__new__(MD)
        c.fired, c.upause, c.wait, c.result = self.fired, self.upause, self.wait, self.result
        c.pending = list(self.pending)
        c.running = False
        return c


class Model:
    def __init__(self, n):
        self.n = n
        self.m = [MD() for _ in range(n)]
        self.nt = 0           # Deferreds 0..nt-1 have been touched (symmetry breaking)
        self.ncid = 0
        self.nfire = 0
        self.open = False     # left the statement's scope (waits-on cycle / returned a Deferred that is mid-callback)
        self.strand = set()   # donors whose later callbacks sit behind a still-paused waiter
        self.flags = set()
        self.log = []         # this step: (i, cid, input)
        self.stack = []
        self.script = {}
        self.readd = {}       # this step: running callback id -> id of the callback it added re-entrantly

    def copy(self):
        c = Model.__new__(Model)
        c.n = self.n
        c.m = [x.copy() for x in self.m]
        c.nt, c.ncid, c.nfire, c.open = self.nt, self.ncid, self.nfire, self.open
        c.strand = set(self.strand)
        c.flags = set()
        c.log = []
        c.stack = []
        c.script = {}
        c.readd = {}
        return c

    def touch(self, i):
        if i + 1 > self.nt:
            self.nt = i + 1

    def waits_on(self, j, i):
        seen = set()
        while j is not None and j not in seen:
            if j == i:
                return True
            seen.add(j)
            j = self.m[j].wait
        return False

    def run(self, i):
        D = self.m[i]
        if D.paused():
            return
        self.stack.append(i)
        while D.pending and not D.paused():
            e = D.pending[0]
            if e[0] == "cont":
                D.pending.pop(0)
                W = self.m[e[1]]
                W.result = D.result
                self.flags.add("cont-" + D.result[0])
                D.result = ("ok", None)
                W.wait = None
                if W.paused():
                    self.flags.add("cont-to-paused")
                    self.strand.update(k for k in self.stack if self.m[k].pending)
                else:
                    self.run(e[1])
                continue
            cid = e[2] if D.result[0] != "fail" else e[3]
            if cid is None:
                D.pending.pop(0)
                continue
            beh = self.script.get(cid)
            if beh is None:
                raise Need(cid, i, e[1] in "CB")
            D.pending.pop(0)
            self.log.append((i, cid, D.result))
            k = beh[0]
            if k in "ra":
                # re-entrant behaviour: while this callback is executing it adds one plain callback
                # (beh[1]: c=addCallback b=addBoth) to its own Deferred ("r") or to d_t ("a"), then returns
                # a value / d_j.  Documented rule: a Deferred whose callback is executing never starts
                # another of its callbacks; the new one is appended and runs after this one has returned,
                # with what it returned.  An add to another Deferred is an ordinary add on that Deferred.
                t = i if k == "r" else int(beh[2:])
                c2 = self.ncid
                self.ncid += 1
                self.readd[cid] = c2
                self.touch(t)
                T = self.m[t]
                T.pending.append(("pair", beh[1].upper(), c2, c2 if beh[1] == "b" else None))
                D.running = True
                if t == i:
                    self.flags.add("reentrant-add-own")
                elif T.running:
                    self.flags.add("reentrant-add-other-running")
                elif not T.fired:
                    self.flags.add("reentrant-add-other-unfired")
                elif T.paused():
                    self.flags.add("reentrant-add-other-paused")
                else:
                    self.flags.add("reentrant-add-other-runs-now" if t not in self.stack else
                                   "reentrant-add-to-the-Deferred-that-resumed-us")
                    self.run(t)
                D.running = False
                beh = beh[2:] if k == "r" else "v"
                k = beh[0]
                if k == "d":
                    self.flags.add("reentrant-add-own-then-return-deferred")
            if k == "v":
                D.result = ("ok", ("v", cid))
            elif k == "x":
                D.result = ("fail", ("x", cid))
            elif k == "f":
                D.result = ("fail", ("f", cid))
            else:
                j = int(beh[1:])
                self.touch(j)
                E = self.m[j]
                if E.running:
                    # a callback returned a Deferred that is itself in the middle of a callback: the
                    # statement's interpreter has no rule for it; leave the scope (accept everything)
                    self.open = True
                    self.flags.add("returned-mid-callback-deferred-out-of-scope")
                if E.fired and E.wait is None and E.upause == 0:
                    self.flags.add("steal-" + ("none" if E.result == ("ok", None) else E.result[0]))
                    D.result = E.result
                    E.result = ("ok", None)
                else:
                    if self.waits_on(j, i):
                        self.open = True
                    self.flags.add("wait-on-" + ("unfired" if not E.fired else
                                                 "waiting" if E.wait is not None else "paused"))
                    D.result = ("def", j)
                    D.wait = j
                    E.pending.append(("cont", i))
        self.stack.pop()

    def apply(self, op, i, kind, script):
        """one top-level operation; raises Need if the script does not cover a callback that runs"""
        self.script = script
        self.log = []
        self.stack = []
        self.strand = set()
        self.readd = {}
        M = self.m[i]
        self.touch(i)
        if op == "add":
            if M.fired and not M.paused():
                self.flags.add("late-add")
            elif M.fired and M.wait is not None:
                self.flags.add("add-while-waiting")
            elif M.fired:
                self.flags.add("add-while-paused-fired")
            c = self.ncid
            if kind == "c" or kind == "n":
                M.pending.append(("pair", kind, c, None))
                self.ncid += 1
            elif kind == "e":
                M.pending.append(("pair", kind, None, c))
                self.ncid += 1
            elif kind == "b":
                M.pending.append(("pair", kind, c, c))
                self.ncid += 1
            else:
                M.pending.append(("pair", kind, c, c + 1))
                self.ncid += 2
            if M.fired:
                self.run(i)
        elif op == "pause":
            M.upause += 1
            if M.fired:
                self.flags.add("pause-fired")
        elif op == "unpause":
            M.upause -= 1
            if M.fired and not M.paused():
                self.flags.add("unpause-runs")
                self.run(i)
        elif op == "cb":
            M.fired = True
            M.result = ("ok", ("c", self.nfire))
            self.nfire += 1
            self.run(i)
        elif op == "eb":
            M.fired = True
            M.result = ("fail", ("e", self.nfire))
            self.nfire += 1
            self.run(i)
        else:
            raise ValueError(op)


def scripts_for(model, op, i, kind, base=("v", "x", "f"), re=(), pbehs="v"):
    """every complete assignment of behaviours to the callbacks the reference runs for this operation;
    re = re-entrant behaviour templates (rcv rbv: add to own Deferred, return a value; rcd rbd: add to own,
    return d_j; ac ab: add to d_j, return a value); callbacks added re-entrantly are plain (pbehs)"""
    out = []
    work = [()]
    while work:
        sc = work.pop()
        m2 = model.copy()
        try:
            m2.apply(op, i, kind, dict(sc))
        except Need as need:
            if need.plain:
                behs = list(pbehs)
            else:
                others = [j for j in range(min(m2.nt + 1, m2.n)) if j != need.i]
                behs = list(base) + ["d%d" % j for j in others]
                for t in re:
                    if t[0] == "r" and t[2] == "v":
                        behs.append(t)
                    elif t[0] == "r":
                        behs.extend("%sd%d" % (t[:2], j) for j in others)
                    else:
                        behs.extend("%s%d" % (t, j) for j in others)
            for b in reversed(behs):
                work.append(sc + ((need.cid, b),))
        else:
            out.append(sc)
    return out


# ---------------------------------------------------------------- real side

_logging_off = [False]


def _quiet():
    if not _logging_off[0]:
        _logging_off[0] = True
        from twisted.logger import globalLogBeginner
        try:
            globalLogBeginner.beginLoggingTo([lambda e: None], redirectStandardIO=False, discardBuffer=True)
        except Exception:
            pass


_sub = []


def _subclass():
    if not _sub:
        from twisted.internet.defer import Deferred

        class SubDeferred(Deferred):
            pass
        _sub.append(SubDeferred)
    return _sub[0]


class St:
    def __init__(self, cfg):
        from twisted.internet.defer import Deferred
        _quiet()
        self.cfg = cfg
        self.n = cfg["n"]
        cls = _subclass() if cfg.get("sub") else Deferred
        self.d = [cls() for _ in range(self.n)]
        self.ids = {id(d): i for i, d in enumerate(self.d)}
        self.model = Model(self.n)
        self.rlog = []         # this step: (i, cid, input)
        self.active = {}       # Deferred index -> number of its callbacks executing right now
        self.count = {}
        self.script = {}
        self.flags = set()
        self.bad = []
        self.lastop = "-"


def classify(st, r):
    from twisted.python.failure import Failure
    from twisted.internet.defer import Deferred
    if r is NO:
        return None
    if isinstance(r, Failure):
        v = r.value
        if isinstance(v, (TokErr, TokBaseErr)) and v.args:
            return ("fail", v.args[0])
        return ("fail", "?" + type(v).__name__)
    if isinstance(r, Deferred):
        return ("def", st.ids.get(id(r), -1))
    return ("ok", r)


def mkfn(st, i, cid, slot):
    from twisted.python.failure import Failure

    def fn(arg, *a, **kw):
        st.count[cid] = st.count.get(cid, 0) + 1
        st.rlog.append((i, cid, classify(st, arg)))
        if st.active.get(i):
            st.bad.append(("Deferred:callback-ran-nested-inside-running-callback",
                           "callback #%d of d%d started (input %r) while another callback of d%d had not returned yet"
                           % (cid, i, classify(st, arg), i)))
        st.active[i] = st.active.get(i, 0) + 1
        try:
            return body(arg, a, kw)
        finally:
            st.active[i] -= 1

    def body(arg, a, kw):
        if a != (cid,) or kw != {"k": cid}:
            st.bad.append(("Deferred:callback-extra-arguments-mismatch:" + slot,
                           "callback #%d registered with (%d, k=%d) was called with %r %r" % (cid, cid, cid, a, kw)))
        beh = st.script.get(cid, "v")
        kind = beh[0]
        if kind in "ra":
            # re-entrant: add one plain callback to the own Deferred (r) / to d_t (a) from inside the callback
            t = i if kind == "r" else int(beh[2:])
            c2 = st.model.readd.get(cid, 100000 + cid)      # ids are labels; the reference numbered them
            f2 = mkfn(st, t, c2, beh[1].upper())
            dt = st.d[t]
            r = dt.addCallback(f2, c2, k=c2) if beh[1] == "c" else dt.addBoth(f2, c2, k=c2)
            if r is not dt:
                st.bad.append(("Deferred:add-does-not-return-self", "re-entrant add on d%d returned %r" % (t, r)))
            beh = beh[2:] if kind == "r" else "v"
            kind = beh[0]
        tok = (kind, cid)
        if kind == "v":
            return tok
        if kind == "x":
            raise (TokBaseErr if cid % 2 else TokErr)(tok)
        if kind == "f":
            return Failure(TokErr(tok))
        return st.d[int(beh[1:])]

    fn._cid = cid
    fn._slot = slot
    return fn


def apply(st, ev):
    op = ev[0]
    i, kind = ev[1], ev[2]
    script = {c: b for c, b in ev[3]}
    d = st.d[i]
    mo = st.model
    st.lastop = op
    st.rlog = []
    st.active = {}
    st.script = script
    c = mo.ncid
    mo.apply(op, i, kind, script)        # a Need here is a harness bug (scripts come from scripts_for)
    st.flags |= mo.flags
    try:
        if op == "add":
            if kind == "c":
                r = d.addCallback(mkfn(st, i, c, "c"), c, k=c)
            elif kind == "e":
                r = d.addErrback(mkfn(st, i, c, "e"), c, k=c)
            elif kind == "b":
                r = d.addBoth(mkfn(st, i, c, "b"), c, k=c)
            elif kind == "n":
                r = d.addCallbacks(mkfn(st, i, c, "n"), None, (c,), {"k": c})
            else:
                r = d.addCallbacks(mkfn(st, i, c, "p"), mkfn(st, i, c + 1, "q"),
                                   (c,), {"k": c}, (c + 1,), {"k": c + 1})
            if r is not d:
                st.bad.append(("Deferred:add-does-not-return-self", "add on d%d returned %r" % (i, r)))
        elif op == "pause":
            d.pause()
        elif op == "unpause":
            d.unpause()
        elif op == "cb":
            d.callback(("c", mo.nfire - 1))
        elif op == "eb":
            d.errback(TokErr(("e", mo.nfire - 1)))
    except TokBaseErr as e:
        st.bad.append(("Deferred:exception-raised-by-callback-escaped:%s" % op,
                       "a callback raised a BaseException subclass and it propagated out of %s instead of becoming a Failure" % op))
    except Exception as e:
        import traceback
        tb = e.__traceback__
        while tb.tb_next is not None:
            tb = tb.tb_next
        if "/twisted/" not in tb.tb_frame.f_code.co_filename:
            raise
        st.bad.append(("Deferred:operation-raised:%s:%s" % (op, type(e).__name__),
                       traceback.format_exc()[-1500:]))


def enabled(st):
    mo = st.model
    if mo.open:
        return []
    cfg = st.cfg
    n = st.n
    core = []
    tot_pairs = sum(1 for M in mo.m for e in M.pending if e[0] == "pair")
    tot_pauses = sum(M.upause for M in mo.m)
    for i in range(min(mo.nt + 1, n)):
        M = mo.m[i]
        if not M.fired:
            core.append(("cb", i, ""))
            core.append(("eb", i, ""))
        if tot_pauses < cfg["pauses"]:
            core.append(("pause", i, ""))
        if M.upause > 0:
            core.append(("unpause", i, ""))
        np_ = sum(1 for e in M.pending if e[0] == "pair")
        runs_now = M.fired and not M.paused()
        if runs_now or (np_ < cfg["pairs"] and tot_pairs < cfg["tpairs"]):
            for kind in cfg.get("kinds", "cebp"):
                core.append(("add", i, kind))
    evs = []
    for op, i, kind in core:
        for sc in scripts_for(mo, op, i, kind, cfg.get("behs", "vxf"), cfg.get("re", ()), cfg.get("pbehs", "v")):
            evs.append((op, i, kind, [list(x) for x in sc]))
    return evs


# ---------------------------------------------------------------- oracle

def _remaining_real(st, i):
    cbs = getattr(st.d[i], "callbacks", None)
    if not isinstance(cbs, list):
        return None
    out = []
    try:
        for item in cbs:
            for slot in item:
                cid = getattr(slot[0], "_cid", None)
                if cid is not None and cid not in out:
                    out.append(cid)
    except Exception:
        return None
    return out


def _remaining_model(st, i):
    out = []
    for e in st.model.m[i].pending:
        if e[0] == "pair":
            for cid in e[2:]:
                if cid is not None and cid not in out:
                    out.append(cid)
    return out


def _cls(r):
    if r is None:
        return "noresult"
    if r[0] == "ok" and r[1] is None:
        return "none"
    if r[0] == "def":
        return "waiting"
    return r[0]


def invariant(st, hist):
    mo = st.model
    if mo.open:
        return []
    out = list(st.bad)
    for cid, c in st.count.items():
        if c > 1:
            out.append(("Deferred:callback-ran-twice", "callback #%d ran %d times" % (cid, c)))
    logbad = []
    if st.rlog != mo.log:
        for i in range(st.n):
            rl = [x[1:] for x in st.rlog if x[0] == i]
            ml = [x[1:] for x in mo.log if x[0] == i]
            if rl == ml:
                continue
            if len(rl) < len(ml) and ml[:len(rl)] == rl:
                logbad.append(("Deferred:callback-not-run:after-" + st.lastop,
                               "d%d: reference ran %r, real ran only %r" % (i, ml, rl)))
            elif len(ml) < len(rl) and rl[:len(ml)] == ml:
                logbad.append(("Deferred:callback-ran-but-reference-did-not:after-" + st.lastop,
                               "d%d: real ran %r, reference only %r" % (i, rl, ml)))
            else:
                k = next(k for k in range(min(len(rl), len(ml))) if rl[k] != ml[k])
                if rl[k][0] == ml[k][0]:
                    a, b = ml[k][1], rl[k][1]
                    logbad.append(("Deferred:callback-input-mismatch:%s-vs-%s" % (_cls(a), _cls(b)),
                                   "d%d callback #%d: reference input %r, real input %r" % (i, rl[k][0], a, b)))
                else:
                    logbad.append(("Deferred:callback-order-mismatch:after-" + st.lastop,
                                   "d%d: reference ran %r, real ran %r" % (i, ml, rl)))
    if not out and not logbad:
        out = _state_mismatches(st)
    else:
        out.extend(logbad)
    if out and not st.bad and mo.strand:
        # Classification only (the verdict is the mismatch above).  Known defect: in this very step the
        # reference handed a result to a waiter that stayed paused, and the real donor -- fired, not paused,
        # not running -- still sits on the entries that come after that continuation.  Everything else that
        # differs in this state (later callbacks, second waiters never resumed) follows from it.
        for i in sorted(mo.strand):
            d = st.d[i]
            cbs = getattr(d, "callbacks", None)
            if isinstance(cbs, list) and cbs and getattr(d, "called", False) and not getattr(d, "paused", 0) \
                    and len(cbs) > len(mo.m[i].pending):
                return [(KNOWN_STRANDED,
                         "d%d is fired and not paused but still holds %d unprocessed callback entries after a "
                         "Deferred chained to it was found paused at its continuation; first difference: %s"
                         % (i, len(cbs), out[0][1]))]
    return out


def _state_mismatches(st):
    mo = st.model
    out = []
    for i in range(st.n):
        d, M = st.d[i], mo.m[i]
        rr = classify(st, getattr(d, "result", NO))
        mr = M.result
        if M.wait is not None:
            ok = rr == ("def", M.wait) or (getattr(d, "_chainedTo", None) is st.d[M.wait] and
                                           (rr is None or rr[0] == "def"))
        else:
            ok = rr == mr
        if not ok:
            out.append(("Deferred:result-mismatch:%s-vs-%s" % (_cls(mr), _cls(rr)),
                        "d%d holds %r, reference %r" % (i, rr, mr)))
            continue
        rem = _remaining_real(st, i)
        if rem is not None and rem != _remaining_model(st, i):
            out.append(("Deferred:pending-callbacks-mismatch:after-" + st.lastop,
                        "d%d still holds callbacks %r, reference %r" % (i, rem, _remaining_model(st, i))))
    return out


# ---------------------------------------------------------------- canonical state

def _proj(st, i):
    """format string for Deferred i; Deferred indices appear as {j} placeholders"""
    from twisted.internet import defer
    d, M = st.d[i], st.model.m[i]
    rc = classify(st, getattr(d, "result", NO))
    rcs = "d{%d}" % rc[1] if rc is not None and rc[0] == "def" else _cls(rc)
    parts = []
    for item in getattr(d, "callbacks", ()):
        ss = ""
        for slot in item:
            fn = slot[0]
            b = getattr(fn, "_slot", None)
            if b is not None:
                ss += b
            elif fn is defer.passthru or fn is getattr(defer, "_failthru", None):
                ss += "-"
            else:
                a = slot[1]
                j = st.ids.get(id(a[0]), -1) if a else -1
                ss += "C{%d}" % j if j >= 0 else "?"
        parts.append(ss)
    ch = getattr(d, "_chainedTo", None)
    chs = "{%d}" % st.ids[id(ch)] if ch is not None and id(ch) in st.ids else "-"
    real = "%d.%d.%s.%s.%s" % (d.called, d.paused, rcs, ",".join(parts), chs)
    mp = ",".join("C{%d}" % e[1] if e[0] == "cont" else e[1] for e in M.pending)
    mr = M.result
    mrs = "d{%d}" % mr[1] if mr is not None and mr[0] == "def" else _cls(mr)
    return "%s|%d.%d.%s.%s" % (real, M.fired, M.upause, mrs, mp)


_PERMS = {}


def canon(st):
    n, nt = st.n, st.model.nt
    projs = [_proj(st, i) for i in range(nt)]
    perms = _PERMS.get((n, nt))
    if perms is None:
        perms = _PERMS[(n, nt)] = [p + tuple(range(nt, n)) for p in itertools.permutations(range(nt))]
    best = None
    for p in perms:
        row = [None] * nt
        for old in range(nt):
            row[p[old]] = projs[old].format(*p)
        t = tuple(row)
        if best is None or t < best:
            best = t
    return (nt, st.model.open) + best


# ---------------------------------------------------------------- driver

def shards(tier, seed):
    return sorted(CFG[tier])


def run_shard(shard, tier, seed):
    fam = shard
    cfg = CFG[tier][fam]
    stats = Stats()
    extra = {"tier": tier, "family": fam}

    def inv(st, hist):
        for f in st.flags:
            stats.outcome(f)
        if st.model.open:
            stats.outcome("cycle-out-of-scope")
        bad = invariant(st, hist)
        for sig, detail in bad:
            stats.violation(sig, detail, dict(extra, history=[list(e) for e in hist]))
        return bad

    def on_state(st, h):
        if st.flags:
            stats.nt((fam, canon(st)))

    res = bfs(lambda: St(cfg), apply, enabled, canon, inv, cfg["depth"], on_state=on_state)
    res.violations = []                     # already folded in by inv (bfs keeps only the first 20)
    stats.add_bfs(res, extra)
    stats.samples = [{"family": fam, "history": h} for h in res.samples[-1:]]
    stats.count("states_" + fam, res.states)
    return stats


def replay(w):
    cfg = CFG[w.get("tier", "quick")][w["family"]]
    st = St(cfg)
    for ev in w["history"]:
        apply(st, tuple(ev))
        bad = invariant(st, None)
        if bad:
            return bad
    return []
