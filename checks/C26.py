"""C26 path containment: FilePath.child / preauthChild / descendant over a hostile name alphabet, and
static.File request paths through a real Site with an audit hook watching every file the process opens."""
import itertools
import os
import shutil
import sys

from mc.runner import Stats

ID = "C26"
LEVEL = "exploration"
TECHNIQUE = "exhaustive input enumeration, lexical containment oracle + sys.addaudithook file-access oracle"
RULE = ("FilePath part: every name that is a concatenation of <= 4 (quick) / 5 (thorough) tokens from "
        "{'..', '.', '/', 'a', 'd', 'root', 'root-sib', '-sib', backslash, NUL} plus absolute names (sibling sharing the "
        "root's name prefix, the root, a file inside, /etc/passwd) and a non-UTF-8 byte, as str and as bytes, on three "
        "parents (root, root with trailing slash, nested dir with a prefix-sharing sibling) for child and preauthChild; "
        "descendant over all sequences of <= 3 segments from 22 names.  Oracle: normalised result == parent or directly "
        "inside (child) / inside the subtree (preauthChild, descendant), else InsecurePath.  "
        "Static part: every request target '/' + concatenation of <= 4 / 5 tokens from {'/', '..', '.', '%2e', '%2f', "
        "'%2E%2E', 'a', 'd', 'root-sib', 'secret', '%00', '%ff', backslash, '%5c', '%2e%2e%2f'} (and the same without "
        "the leading slash) through Site.getResourceFor + render on a directory whose parent holds a prefix-sharing "
        "sibling directory and a secret file; every open()/listdir()/scandir() seen by an audit hook inside the "
        "scratch tree must lie under the served root, and no response may carry the marker written into outside files. "
        "non-trivial = distinct names/targets holding at least one hostile token")
BOUNDS = {"quick": "names of <= 4 tokens, request targets of <= 4 tokens", "thorough": "<= 5 tokens each"}
ASSUMPTIONS = [
    "containment is judged lexically on os.path.normpath of the returned path (the statement sets symbolic links aside); "
    "the scratch tree has no symbolic links",
    "file access is observed through CPython audit events open / os.listdir / os.scandir; accesses outside the scratch "
    "tree (python sources, mime.types) are ignored",
    "a ValueError/UnicodeError for a name holding NUL or a non-UTF-8 byte counts as a refusal",
]
MIN = {"quick": {"evaluations": 198000, "nontrivial": 185000, "outcomes": 7},
       "thorough": {"evaluations": 2600000, "nontrivial": 2450000, "outcomes": 7}}

NAME_TOKENS = ["..", ".", "/", "a", "d", "root", "root-sib", "-sib", "\\", "\x00"]
SEGMENTS = ["", ".", "..", "a", "d", "/", "\\", "\x00", "../", "a/", "/a", "..a", "a..", "./", "..\\", "../root-sib",
            "root-sib", "...", "a/..", "a/../..", "-sib", "../d-sib"]
WEB_TOKENS = ["/", "..", ".", "%2e", "%2f", "%2E%2E", "a", "d", "root-sib", "secret", "%00", "%ff", "\\", "%5c",
              "%2e%2e%2f"]
HOSTILE = ("..", "%2e", "%2E", "%2f", "%00", "%ff", "\\", "%5c", "\x00", "/", "root-sib", "-sib", "secret")
MARK = b"OUTSIDE-THE-ROOT"


def base_dir():
    return "/dev/shm/verif-C26-%d" % os.getpid()


# --------------------------------------------------------------------------- FilePath part

def norm(p):
    if isinstance(p, bytes):
        p = os.fsdecode(p)
    return os.path.normpath(os.path.abspath(p))


def inside(result, root):
    """'self' / 'direct' / 'deep' / None (outside), judged on normalised strings."""
    r, b = norm(result), norm(root)
    if r == b:
        return "self"
    pre = b if b.endswith(os.sep) else b + os.sep
    if not r.startswith(pre):
        return None
    return "direct" if os.sep not in r[len(pre):] else "deep"


def fp_names(tier, base):
    depth = 4 if tier == "quick" else 5
    yield ""
    for n in range(1, depth + 1):
        for combo in itertools.product(NAME_TOKENS, repeat=n):
            yield "".join(combo)
    for extra in (base + "/root-sib/a", base + "/root-sib", base + "/root/a", base + "/root", base + "/rootsib",
                  "/etc/passwd", base + "/root/d-sib/x", base + "/root/../root-sib/a", "/"):
        yield extra


def fp_call(method, parent, name):
    """-> (outcome, result path or None, exception or None)"""
    from twisted.python.filepath import InsecurePath
    try:
        if method == "descendant":
            res = parent.descendant(name)
        else:
            res = getattr(parent, method)(name)
    except InsecurePath:
        return "rejected", None, None
    except (ValueError, UnicodeError) as e:
        flat = name if method != "descendant" else (b"" if name and isinstance(name[0], bytes) else "").join(name)
        hostile = (b"\x00" in flat or b"\xff" in flat) if isinstance(flat, bytes) else "\x00" in flat
        if hostile:
            return "rejected-other", None, None
        return "exception", None, e
    return "returned", res.path, None


def fp_judge(method, root_path, name, outcome, result, exc):
    if outcome in ("rejected", "rejected-other"):
        return outcome, None
    what = "FilePath.%s" % method
    if outcome == "exception":
        return outcome, (what + ":unexpected-exception:" + type(exc).__name__, repr(exc)[:200])
    where = inside(result, root_path)
    if where is None:
        r, b = norm(result), norm(root_path)
        kind = "escape-to-prefix-sharing-sibling" if r.startswith(b) else "escape"
        return "escaped", ("%s:%s" % (what, kind), "%s(%r) on %r returned %r" % (method, name, root_path, result))
    if method == "child" and where == "deep":
        return "deep", (what + ":not-a-direct-child", "child(%r) on %r returned %r" % (name, root_path, result))
    return where, None


def run_fp(st, method, mode, rootv, tier, seed):
    from twisted.python.filepath import FilePath
    base = base_dir()
    root_path = {0: base + "/root", 1: base + "/root/", 2: base + "/root/d"}[rootv]
    parent = FilePath(root_path)
    if method == "descendant":
        space = ((),) + tuple(c for n in (1, 2, 3) for c in itertools.product(SEGMENTS, repeat=n))
    else:
        space = fp_names(tier, base)
        if mode == "bytes":
            space = itertools.chain(space, ["\udcff", "..\udcff", "../root-sib\udcff", "\udcff/../../root-sib"])
    for name in space:
        if mode == "bytes":
            arg = [os.fsencode(s) for s in name] if method == "descendant" else os.fsencode(name)
        else:
            arg = list(name) if method == "descendant" else name
        outcome, result, exc = fp_call(method, parent, arg)
        label, bad = fp_judge(method, root_path, arg, outcome, result, exc)
        st.evaluations += 1
        st.outcome("fp-" + label)
        flat = "".join(name)
        if any(h in flat for h in HOSTILE):
            st.nt((method, mode, rootv, name if not isinstance(name, tuple) else name))
        if st.evaluations % 20011 == 3:
            st.sample({"call": method, "mode": mode, "parent": root_path, "name": arg, "outcome": label}, 2)
        if bad:
            st.violation(bad[0], bad[1], {"part": "fp", "method": method, "mode": mode, "rootv": rootv,
                                          "name": list(name) if method == "descendant" else name})


# --------------------------------------------------------------------------- static.File part

_AUD = {"on": False, "events": [], "installed": False}


def _hook(event, args):
    if not _AUD["on"]:
        return
    if event in ("open", "os.listdir", "os.scandir"):
        _AUD["events"].append((event, args[0] if args else None))


def install_audit():
    if not _AUD["installed"]:
        sys.addaudithook(_hook)     # cannot be removed: installed once per process, gated by _AUD["on"]
        _AUD["installed"] = True


class WebEnv:
    def __init__(self, ignored=()):
        from twisted.web import static, server
        from twisted.internet import task
        install_audit()
        self.base = base_dir()
        shutil.rmtree(self.base, ignore_errors=True)
        for d in ("root/d", "root-sib/d", "rootsib", "root/d-sib"):
            os.makedirs(os.path.join(self.base, d))
        for p, c in (("root/a", b"inside:a"), ("root/d/a", b"inside:d/a"), ("root/d-sib/a", b"inside:d-sib/a"),
                     ("root/a.txt", b"inside:a.txt"),
                     ("root-sib/a", MARK + b":root-sib/a"), ("root-sib/d/a", MARK + b":root-sib/d/a"),
                     ("root-sib/" + MARK.decode(), MARK), ("rootsib/a", MARK + b":rootsib/a"),
                     ("secret", MARK + b":secret"), ("a", MARK + b":a"), (MARK.decode(), MARK)):
            with open(os.path.join(self.base, p), "wb") as f:
                f.write(c)
        self.root = os.path.realpath(os.path.join(self.base, "root"))
        self.realbase = os.path.realpath(self.base)
        self.site = server.Site(static.File(os.path.join(self.base, "root"), ignoredExts=ignored),
                                reactor=task.Clock())

    def close(self):
        shutil.rmtree(self.base, ignore_errors=True)

    def get(self, target):
        from checks import _webdrive
        del _AUD["events"][:]
        _AUD["on"] = True
        try:
            raw, hung, logged = _webdrive.request(self.site, b"GET " + target + b" HTTP/1.1\r\nHost: h\r\n\r\n")
        finally:
            _AUD["on"] = False
        return raw, hung, logged, list(_AUD["events"])

    def judge(self, target, raw, hung, events):
        import re
        bad = []
        shown = re.sub(rb"(?im)^(Date|Last-Modified): [^\r\n]*", rb"\1: -", raw[:600])
        outside = []
        for ev, p in events:
            if isinstance(p, int) or p is None:
                continue
            try:
                q = os.path.realpath(os.fsdecode(p))
            except (ValueError, TypeError):
                continue
            if (q == self.realbase or q.startswith(self.realbase + os.sep)) and not (
                    q == self.root or q.startswith(self.root + os.sep)):
                outside.append((ev, q[len(self.realbase):]))
        if outside:
            bad.append(("static.File:accessed-path-outside-root",
                        {"target": target, "accessed": outside[:4], "response": shown[:120]}))
        if MARK in raw:
            bad.append(("static.File:served-outside-content", {"target": target, "response": shown[:300]}))
        if hung:
            bad.append(("static.File:hang", {"target": target}))
        status = raw[9:12].decode("latin-1") if raw.startswith(b"HTTP/1.") else "none"
        if b"inside:" in raw:
            label = "web-%s-file" % status
        elif b"Directory listing" in raw:
            label = "web-%s-listing" % status
        else:
            label = "web-" + status
        return label, bad


def web_targets(first, tier):
    depth = 4 if tier == "quick" else 5
    for n in range(0, depth):
        for combo in itertools.product(WEB_TOKENS, repeat=n):
            yield first + "".join(combo)


def run_web(st, first, lead, ignored, tier, seed):
    env = WebEnv(tuple(ignored))
    try:
        for t in web_targets(first, tier):
            target = (lead + t).encode("ascii")
            if not target:
                continue
            raw, hung, logged, events = env.get(target)
            label, bad = env.judge(target, raw, hung, events)
            st.evaluations += 1
            st.outcome(label)
            if any(h in t for h in HOSTILE):
                st.nt((lead, t, tuple(ignored)))
            if st.evaluations % 5003 == 2:
                st.sample({"target": target, "outcome": label}, 2)
            for sig, detail in bad:
                st.violation(sig, detail, {"part": "web", "target": target, "ignored": list(ignored)})
    finally:
        env.close()


# --------------------------------------------------------------------------- runner interface

def shards(tier, seed):
    out = []
    for method in ("child", "preauthChild"):
        for mode in ("str", "bytes"):
            for rootv in (0, 1, 2):
                out.append(["fp", method, mode, rootv])
    for mode in ("str", "bytes"):
        out.append(["fp", "descendant", mode, 0])
        out.append(["fp", "descendant", mode, 2])
    for first in WEB_TOKENS:
        out.append(["web", first, "/", []])
    for first in WEB_TOKENS:
        if first != "/":
            out.append(["web", first, "", ["*"] if tier == "quick" else []])
    if tier == "thorough":
        for first in WEB_TOKENS:
            out.append(["web", first, "/", ["*", ".txt"]])
    return out


def run_shard(shard, tier, seed):
    st = Stats()
    if shard[0] == "fp":
        run_fp(st, shard[1], shard[2], shard[3], tier, seed)
    else:
        run_web(st, shard[1], shard[2], shard[3], tier, seed)
    return st


def replay(w):
    if w["part"] == "fp":
        from twisted.python.filepath import FilePath
        base = base_dir()
        root_path = {0: base + "/root", 1: base + "/root/", 2: base + "/root/d"}[w["rootv"]]
        name = w["name"]
        # the scratch directory name holds the pid: re-anchor absolute names of the recorded run
        def fix(s):
            import re
            return re.sub(r"/dev/shm/verif-C26-\d+", base, s)
        if w["method"] == "descendant":
            arg = [fix(s) for s in name]
            if w["mode"] == "bytes":
                arg = [os.fsencode(s) for s in arg]
        else:
            arg = fix(name)
            if w["mode"] == "bytes":
                arg = os.fsencode(arg)
        outcome, result, exc = fp_call(w["method"], FilePath(root_path), arg)
        label, bad = fp_judge(w["method"], root_path, arg, outcome, result, exc)
        return [bad] if bad else []
    env = WebEnv(tuple(w.get("ignored", ())))
    try:
        raw, hung, logged, events = env.get(w["target"])
        return env.judge(w["target"], raw, hung, events)[1]
    finally:
        env.close()
