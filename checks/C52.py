"""C52 atomic replacement: FilePath.setContent and sob.Persistent.save under every crash point."""
import os, shutil
from mc.crashfs import CrashFS, Crash, crash_plans, real_open
from mc.runner import Stats

ID = "C52"
LEVEL = "fault_enumeration"
ENGINE = "mc.crashfs"
RULE = ("for every (operation, old content, new content) case the real code runs once uncrashed to record its mutating "
        "system calls (with user-space buffering modelled), then once per crash plan: before every call and inside every "
        "write after each prefix length (all lengths for writes <= 16 bytes; 1,2,half,4095..4097,size-1 for larger). After "
        "each crash the target must hold the complete old or the complete new content. non-trivial = distinct (case, crash "
        "plan) pairs where the crash fell after the first mutating call, i.e. something was already on disk")
BOUNDS = {"quick": "setContent x {absent,empty old,old} x {empty,1 byte,8197 bytes} x ext variants; Persistent.save pickle/source x small/large x {absent,old} x {filename, tag}",
          "thorough": "same cases plus every prefix length of the large writes (all 8197+ lengths)"}
ASSUMPTIONS = ["process-crash model: completed system calls persist, user-space buffers are lost, rename/unlink are atomic; no block reordering (the property is about process crashes)",
               "BUFSIZE 8192 stands for io.DEFAULT_BUFFER_SIZE; every prefix of buffered data is anyway enumerated as a partial write"]
MIN = {"quick": {"evaluations": 275, "nontrivial": 200, "outcomes": 2}}

BIG = bytes(range(256)) * 32 + b"tail!"   # 8197 bytes: crosses the 8192 buffer


def _cases():
    out = []
    for old in (None, b"", b"old-content"):     # absent / present but empty / present
        for new in ("empty", "one", "big"):
            for ext in (".new", b".x"):
                out.append(("setContent", old, new, ext))
    for style in ("pickle", "source"):
        for size in ("small", "large"):
            for old in (None, "old"):
                for how in ("filename", "tag"):
                    out.append(("persist", old, size, (style, how)))
    # an earlier save of a LARGER object crashed in the middle of its dump and left its temporary file
    # behind (which the property allows); a later, shorter save must still leave complete old or new content
    for style in ("pickle", "source"):
        for old in (None, "old"):
            out.append(("persist", old, "small", (style, "filename", "leftover")))
    return out


def _obj(size):
    return {"k": 1, "l": ["a", "b"]} if size == "small" else {"big": list(range(3000)), "s": "x" * 3000}


def _setup(case, d):
    """Create scratch dir; return (target path, op callable, new-content bytes or None)."""
    from twisted.python.filepath import FilePath
    from twisted.persisted import sob
    from twisted.python import filepath
    filepath.randomBytes = lambda n: b"\x01" * n   # deterministic temporary names
    os.mkdir(d)
    kind, old, new, extra = case
    if kind == "setContent":
        target = os.path.join(d, "target")
        if old is not None:
            with real_open(target, "wb") as f:
                f.write(old)
        content = {"empty": b"", "one": b"n", "big": BIG}[new]
        fp = FilePath(target)
        return target, (lambda: fp.setContent(content, extra)), content, old
    style, how = extra[0], extra[1]
    leftover = len(extra) > 2
    ext = "tap" if style == "pickle" else "tas"
    if how == "filename":
        target = os.path.join(d, "app." + ext)
        kw = {"filename": target}
    else:
        target = os.path.join(d, "app-t1." + ext)
        kw = {"tag": "t1"}
    oldbytes = None
    if old is not None:
        p0 = sob.Persistent({"previous": True}, os.path.join(d, "app"))
        p0.setStyle(style)
        p0.save(**kw)
        with real_open(target, "rb") as f:
            oldbytes = f.read()
    if leftover:
        big = sob.Persistent(_obj("large"), os.path.join(d, "app"))
        big.setStyle(style)
        fs0 = CrashFS(None, root=d)
        with fs0:
            big.save(filename=os.path.join(d, "probe." + ext))
        os.remove(os.path.join(d, "probe." + ext))
        widx = max((i for i, o in enumerate(fs0.ops) if o[0] == "write"), key=lambda i: fs0.ops[i][2])
        fs1 = CrashFS((widx, fs0.ops[widx][2] - 3), root=d)
        with fs1:
            try:
                big.save(**kw)
            except Crash:
                pass
        assert fs1.crashed
    p = sob.Persistent(_obj(new), os.path.join(d, "app"))
    p.setStyle(style)
    # the complete new content, obtained from a save to a fresh path (independent of any leftover file)
    ref = os.path.join(d, "reference." + ext)
    p.save(filename=ref)
    with real_open(ref, "rb") as f:
        expect = f.read()
    os.remove(ref)
    return target, (lambda: p.save(**kw)), expect, oldbytes


def _read(path):
    try:
        with real_open(path, "rb") as f:
            return f.read()
    except FileNotFoundError:
        return None


def run_case(case, plan, base):
    d = os.path.join(base, "d")
    if os.path.exists(d):
        shutil.rmtree(d)
    target, op, expect_new, oldbytes = _setup(case, d)
    fs = CrashFS(plan, root=base)
    with fs:
        try:
            op()
        except Crash:
            pass
    return fs, target, expect_new, oldbytes, d


def check_case(case, base, tier, st):
    bad = []
    fs0, target, expect_new, oldbytes, d = run_case(case, None, base)
    newbytes = _read(target)
    st.evaluations += 1
    if expect_new is not None and newbytes != expect_new:
        bad.append(("no-crash:wrong-content", "uncrashed run left %r..." % (newbytes[:20] if newbytes else newbytes), None))
    if newbytes is None:
        bad.append(("no-crash:target-missing", "uncrashed run left no target", None))
    if newbytes is not None and not bad:
        st.outcome("new")
    left = sorted(os.listdir(d))
    if left != [os.path.basename(target)]:
        st.outcome("leftover-after-success")
    ops = list(fs0.ops)
    plans = list(crash_plans(ops, small=16 if tier == "quick" else 1 << 20))
    for plan in plans:
        fs, target, _, _, d = run_case(case, plan, base)
        st.evaluations += 1
        if not fs.crashed:
            bad.append(("nondeterministic-op-list", "plan %r did not crash" % (plan,), plan))
            continue
        got = _read(target)
        if plan[0] > 0 or plan[1]:
            st.nt((case[0], None if case[1] is None else len(case[1]), case[2], str(case[3]), plan))
        if got == oldbytes:
            st.outcome("old")
        elif got == newbytes:
            st.outcome("new")
        else:
            kind = "target-missing" if got is None else ("partial-new" if newbytes is not None and newbytes.startswith(got) else "garbled")
            opname = ops[plan[0]][0].split("->")[0]
            bad.append(("%s:%s:crash-at-%s" % (case[0], kind, opname),
                        "after crash plan %r (%r) target holds %s; old=%s new=%s" % (
                            plan, ops[plan[0]], kind, "absent" if oldbytes is None else "%d bytes" % len(oldbytes),
                            "%d bytes" % len(newbytes or b"")), plan))
    st.sample({"case": [case[0], None if case[1] is None else ("old" if case[1] else "empty-old"), case[2], str(case[3])], "syscalls": ops, "crash_plans": len(plans)})
    return bad


def shards(tier, seed):
    return list(range(len(_cases())))


def run_shard(shard, tier, seed):
    st = Stats()
    case = _cases()[shard]
    base = "/dev/shm/verif-C52-%d" % os.getpid()
    shutil.rmtree(base, ignore_errors=True)
    os.makedirs(base)
    cwd = os.getcwd()
    try:
        os.chdir(base)
        for sig, detail, plan in check_case(case, base, tier, st):
            st.violation(sig, detail, {"case": shard, "plan": plan})
    finally:
        os.chdir(cwd)
        shutil.rmtree(base, ignore_errors=True)
    return st


def replay(w):
    st = Stats()
    base = "/dev/shm/verif-C52-%d" % os.getpid()
    shutil.rmtree(base, ignore_errors=True)
    os.makedirs(base)
    try:
        return [(s, d) for s, d, p in check_case(_cases()[w["case"]], base, "quick", st)
                if p == (tuple(w["plan"]) if w["plan"] else None)]
    finally:
        shutil.rmtree(base, ignore_errors=True)
