"""C41 Mail text codecs round-trip: IMAP4 modified UTF-7 (twisted.mail.imap4) and SMTP xtext (twisted.mail.smtp).

Every input of the declared spaces is pushed through the REAL encoder and decoder; the oracle is a
separate RFC 3501 / RFC 3461 validator + reference decoder written here (no code shared with twisted,
and no use of Python's own utf-7 codec, which is what the code under test leans on).
"""
import base64
import itertools
import re

from mc.runner import Stats
from twisted.mail import imap4, smtp   # imported once in the parent; workers are forked

ID = "C41"
LEVEL = "exploration"
TECHNIQUE = "exhaustive input enumeration with independent RFC validators"
RULE = ("modified UTF-7: every string of length <= L over a 24-symbol alphabet chosen from the code (the characters "
        "the encoder special-cases: '&', '-', printable boundary 0x20/0x7e, 0x1f/0x7f/0x80, the characters Python's "
        "utf-7 codec passes through directly (TAB CR LF) or treats specially ('+', '/', ','), BMP and astral characters "
        "and plane boundaries) so that shift runs of 1..L UTF-16 units in every base64 alignment occur next to every "
        "kind of neighbour, plus every single non-surrogate BMP code point and the first/last 256 code points of every astral "
        "plane (quick) or EVERY non-surrogate code point U+0000..U+10FFFF (thorough), and every pair "
        "(c, x), (x, c) of a code point c < U+0300 with x in {'a','&',U+00E9}; xtext: every byte string of length <= 2 over all 256 values and "
        "every string of length <= M over 12 special bytes, each through both call forms (bytes, and the latin-1 str "
        "form used by the codec registration). Each output is validated against the RFC grammar by a hand-written "
        "parser, decoded by a reference decoder and by the real decoder. non-trivial = distinct inputs that need at "
        "least one escape or shift sequence")
BOUNDS = {"quick": "utf-7 strings L<=3 (14425) + 63488 BMP code points + 8192 astral plane-edge code points + 4608 pairs; xtext all bytes^<=2 and 12^<=3, x2 call forms",
          "thorough": "utf-7 strings L<=4 (346201) + all 1112064 single code points + pairs; xtext all bytes^<=2 and 12^<=5, x2 call forms"}
ASSUMPTIONS = [
    "RFC 3501 5.1.3 form is checked by a hand-written parser: printable US-ASCII except '&' stands for itself, '&-' is '&', "
    "'&'<modified base64 of UTF-16BE, no padding>'-' otherwise; base64 must not carry printable ASCII, no null shifts; "
    "non-zero pad bits are tolerated (RFC 3501 is silent)",
    "RFC 3461 xtext = *( xchar / '+' 2HEXDIG-uppercase ), xchar = 0x21..0x7e except '+' and '='",
    "xtext_decode returning a str whose code points are the byte values is accepted as 'the same bytes' (the codec is a "
    "text<->bytes codec by registration); only the values are compared",
]
MIN = {"quick": {"evaluations": 158000, "nontrivial": 144000, "outcomes": 12},
       "thorough": {"evaluations": 1500000, "nontrivial": 1470000, "outcomes": 12}}

U7_ALPHA = ["a", "&", "-", "+", "/", ",", "~", " ", "\\", "A",
            "\t", "\n", "\r", "\x00", "\x1f", "\x7f", "\x80",
            "\u00e9", "\u20ac", "\uffff", "\ud7ff", "\ue000", "\U0001f600", "\U0010ffff"]
XT_ALPHA = [b"+", b"=", b"2", b"B", b" ", b"\x7f", b"\x80", b"\x00", b"a", b"~", b"!", b"\xff"]
B64 = b"ABCDEFGHIJKLMNOPQRSTUVWXYZabcdefghijklmnopqrstuvwxyz0123456789+,"
B64SET = set(B64)
XTEXT_RE = re.compile(rb"\A(?:[!-*,-<>-~]|\+[0-9A-F]{2})*\Z")


# ---------------------------------------------------------------- reference (boring) side
def ref_u7_parse(out):
    """Parse bytes as RFC 3501 modified UTF-7. Returns (text, None) or (None, reason)."""
    res = []
    i, n = 0, len(out)
    prev_shift = False
    while i < n:
        c = out[i]
        if c < 0x20 or c > 0x7e:
            return None, "non-printable-output"
        if c != 0x26:
            res.append(chr(c))
            i += 1
            prev_shift = False
            continue
        j = out.find(b"-", i + 1)
        if j < 0:
            return None, "unterminated-shift"
        body = out[i + 1:j]
        if not body:
            res.append("&")
            i = j + 1
            prev_shift = False
            continue
        if prev_shift:
            return None, "null-shift"
        if any(b not in B64SET for b in body):
            return None, "bad-base64-char"
        if len(body) % 4 == 1:
            return None, "bad-base64-length"
        std = body.replace(b",", b"/") + b"=" * (-len(body) % 4)
        raw = base64.b64decode(std)
        if len(raw) % 2:
            # 8 stray bits cannot be padding (padding is < 6 bits)
            return None, "odd-utf16-length"
        units = [int.from_bytes(raw[k:k + 2], "big") for k in range(0, len(raw), 2)]
        k = 0
        while k < len(units):
            u = units[k]
            if 0xD800 <= u < 0xDC00:
                if k + 1 >= len(units) or not (0xDC00 <= units[k + 1] < 0xE000):
                    return None, "lone-surrogate-in-base64"
                res.append(chr(0x10000 + ((u - 0xD800) << 10) + (units[k + 1] - 0xDC00)))
                k += 2
                continue
            if 0xDC00 <= u < 0xE000:
                return None, "lone-surrogate-in-base64"
            if 0x20 <= u <= 0x7e:
                return None, "printable-ascii-in-base64"
            res.append(chr(u))
            k += 1
        i = j + 1
        prev_shift = True
    return "".join(res), None


def ref_xtext_decode(out):
    res = bytearray()
    i = 0
    while i < len(out):
        if out[i] == 0x2b:
            res.append(int(out[i + 1:i + 3], 16))
            i += 3
        else:
            res.append(out[i])
            i += 1
    return bytes(res)


# ---------------------------------------------------------------- real side
def check_u7(s):
    """Returns (list of (sig, detail)), outcome-class, nontrivial?"""
    bad = []
    known_shape = any(c in s for c in "\t\n\r")

    def sig(kind):
        if known_shape:
            return "imap4.encoder:TAB-CR-LF-not-base64-encoded"
        return kind

    try:
        r = imap4.encoder(s)
        out = r[0]
    except Exception as e:  # the statement allows no exception for a valid string
        return [(sig("imap4.encoder:exception:" + type(e).__name__), "%r -> %r" % (s, e))], "enc-exception", True
    if not isinstance(out, (bytes, bytearray)):
        return [(sig("imap4.encoder:output-not-bytes"), "%r -> %r" % (s, out))], "enc-type", True
    out = bytes(out)
    text, why = ref_u7_parse(out)
    if why is not None:
        bad.append((sig("imap4.encoder:not-rfc3501-form:" + why), "%r -> %r" % (s, out)))
    elif text != s:
        bad.append((sig("imap4.encoder:encodes-a-different-string"), "%r -> %r which is RFC 3501 for %r" % (s, out, text)))
    try:
        back = imap4.decoder(out)[0]
    except Exception as e:
        bad.append((sig("imap4.decoder:exception-on-own-output:" + type(e).__name__), "%r -> %r -> %r" % (s, out, e)))
    else:
        if back != s:
            bad.append((sig("imap4.codec:roundtrip-mismatch"), "%r -> %r -> %r" % (s, out, back)))
    nshift = out.count(b"&") - out.count(b"&-")
    namp = out.count(b"&-")
    cls = "u7:" + ("shift" if nshift else "") + ("+amp" if namp else "") + ("+direct" if any(0x20 <= ord(c) <= 0x7e and c != "&" for c in s) else "")
    if any(ord(c) > 0xffff for c in s):
        cls += "+astral"
    return bad, cls, bool(nshift or namp)


def check_xt(b, form):
    bad = []
    known_shape = False    # the bytes-input '+'/'=' defect was fixed in /repo; no shape is special-cased any more

    def sig(kind):
        if known_shape:
            return "xtext_encode:bytes-input:plus-and-equals-not-escaped"
        return kind

    arg = b if form == "bytes" else b.decode("latin-1")
    try:
        out = smtp.xtext_encode(arg)[0]
    except Exception as e:
        return [(sig("xtext_encode:%s:exception:%s" % (form, type(e).__name__)), "%r -> %r" % (arg, e))], "xt-enc-exception", True
    if not isinstance(out, (bytes, bytearray)):
        return [(sig("xtext_encode:%s:output-not-bytes" % form), "%r -> %r" % (arg, out))], "xt-enc-type", True
    out = bytes(out)
    if not XTEXT_RE.match(out):
        bad.append((sig("xtext_encode:%s:not-rfc3461-xtext" % form), "%r -> %r" % (arg, out)))
    elif ref_xtext_decode(out) != b:
        bad.append((sig("xtext_encode:%s:encodes-different-bytes" % form), "%r -> %r" % (arg, out)))
    try:
        back = smtp.xtext_decode(out)[0]
    except Exception as e:
        bad.append((sig("xtext_decode:exception-on-own-output:" + type(e).__name__), "%r -> %r -> %r" % (arg, out, e)))
    else:
        try:
            canon = back.encode("latin-1") if isinstance(back, str) else bytes(back)
        except (UnicodeError, TypeError, ValueError):
            canon = None
        if canon != b:
            bad.append((sig("xtext:%s:roundtrip-mismatch" % form), "%r -> %r -> %r" % (arg, out, back)))
    esc = out.count(b"+") if XTEXT_RE.match(out) else -1
    cls = "xt:%s:%s" % (form, "escaped" if esc > 0 else ("plain" if esc == 0 else "invalid"))
    return bad, cls, any(c < 33 or c > 126 or c in (0x2b, 0x3d) for c in b)


# ---------------------------------------------------------------- enumeration
def _lens(tier):
    return (3, 3) if tier == "quick" else (4, 5)


def shards(tier, seed):
    out = [["u7s", i] for i in range(len(U7_ALPHA))]
    if tier == "quick":
        out += [["u7cp", lo, 0x1000] for lo in range(0, 0x10000, 0x1000)]
        out += [["u7edge", 0]]
    else:
        out += [["u7cp", lo, 0x8000] for lo in range(0, 0x110000, 0x8000)]
    out += [["u7pair", 0]]
    out += [["xt2", k] for k in range(0, 256, 32)]
    out += [["xts", i] for i in range(len(XT_ALPHA))]
    return out


def _inputs(shard, tier):
    kind, k = shard[0], shard[1]
    L, M = _lens(tier)
    if kind == "u7s":
        first = U7_ALPHA[k]
        if k == 0:
            yield ("u7", "")
        for n in range(0, L):
            for rest in itertools.product(U7_ALPHA, repeat=n):
                yield ("u7", first + "".join(rest))
    elif kind == "u7cp":
        for cp in range(k, k + shard[2]):
            if 0xD800 <= cp < 0xE000:
                continue
            yield ("u7", chr(cp))
    elif kind == "u7edge":
        for plane in range(1, 17):
            for cp in itertools.chain(range(plane << 16, (plane << 16) + 0x100), range((plane << 16) + 0xff00, (plane + 1) << 16)):
                yield ("u7", chr(cp))
    elif kind == "u7pair":
        for cp in range(0, 0x300):
            for x in ("a", "&", "\u00e9"):
                yield ("u7", chr(cp) + x)
                yield ("u7", x + chr(cp))
    elif kind == "xt2":
        for form in ("bytes", "str"):
            if k == 0:
                yield ("xt", form, b"")
            for a in range(k, k + 32):
                yield ("xt", form, bytes([a]))
                for c in range(256):
                    yield ("xt", form, bytes([a, c]))
    elif kind == "xts":
        first = XT_ALPHA[k]
        for form in ("bytes", "str"):
            for n in range(2, M):
                for rest in itertools.product(XT_ALPHA, repeat=n):
                    yield ("xt", form, first + b"".join(rest))


def run_shard(shard, tier, seed):
    st = Stats()
    for inp in _inputs(shard, tier):
        st.evaluations += 1
        if inp[0] == "u7":
            bad, cls, nt = check_u7(inp[1])
            wit = {"kind": "u7", "cps": [ord(c) for c in inp[1]]}
        else:
            bad, cls, nt = check_xt(inp[2], inp[1])
            wit = {"kind": "xt", "form": inp[1], "bytes": list(inp[2])}
        st.outcome(cls)
        if nt:
            st.nt(inp)
        if st.evaluations % 50021 == 1:
            st.sample(wit)
        for sig, detail in bad:
            st.violation(sig, detail, wit)
    return st


def replay(w):
    if w["kind"] == "u7":
        return check_u7("".join(chr(c) for c in w["cps"]))[0]
    return check_xt(bytes(w["bytes"]), w["form"])[0]
