"""C21 HTTP/1.1 server pipelining: one request at a time, responses in order, notifyFinish once.

Explicit-state search.  A configuration fixes the pipelined client stream (<=3 requests of several
kinds), its segmentation, which requests answer inside process(), and the eager-read limit.  The
events are: deliver the next segment, write / late notifyFinish / finish for the request in
progress, transport pauseProducing / resumeProducing, connectionLost (in every state), and a late
finish() after the loss.  Every transition is executed on a real HTTPChannel + http.Request; the
invariant is evaluated in every state."""
from __future__ import annotations

from mc.bfs import bfs
from mc.runner import Stats
from checks._http_b import parse_responses, tup

ID = "C21"
LEVEL = "model_checking"
TECHNIQUE = "explicit-state BFS over event histories on the real HTTPChannel, h11 as wire oracle"
RULE = ("BFS over histories of deliver-next-segment / write(k) / notifyFinish(k) / finish(k) / transport pause / "
        "resume / connectionLost / finish-after-loss on a real HTTPChannel for every configuration (request kinds "
        "GET, POST+Content-Length, POST chunked, POST + extraneous CRLF, Expect: 100-continue, final 'Connection: "
        "close' or HTTP/1.0; answer inside process() or "
        "later; segmentation whole / per request / mid-header / 2 bytes before each request end; eager-read limit "
        "default or 8 bytes). In every state: at most one request in progress and handed in arrival order with its "
        "own body, with nothing in progress and no write-pause the channel is reading again, the wire parses (h11) as the complete responses of the finished requests in order plus at most a "
        "prefix of the current one, every notifyFinish Deferred fired exactly as the statement says. "
        "non-trivial = distinct canonical states with >=2 requests on the connection in which data was buffered "
        "behind an unfinished request, the transport was paused, or the connection was lost with a request pending")
BOUNDS = {"quick": "<=3 pipelined requests, history depth 9", "thorough": "<=3 pipelined requests, history depth 12"}
ASSUMPTIONS = [
    "the transport is the in-memory MemTransport: it delivers nothing while the channel has paused it or after "
    "loseConnection, and calls pause/resumeProducing only while the channel is registered as its producer",
    "the idle timeout is armed on a task.Clock that never advances (timeouts are not part of the statement)",
    "canonical state = configuration + harness bookkeeping + wire bytes + the channel's buffering/flow-control "
    "attributes (read defensively, used only to merge states, never for the verdict)",
]
MIN = {"quick": {"states": 120000, "transitions": 170000, "nontrivial": 110000, "outcomes": 5},
       "thorough": {"states": 370000, "transitions": 540000, "nontrivial": 350000, "outcomes": 5}}

KINDS = {
    # kind -> (method, request bytes for path /i, expected body)
    "G": ("GET", lambda i: b"GET /%d HTTP/1.1\r\nHost: x\r\n\r\n" % i, b""),
    "P": ("POST", lambda i: b"POST /%d HTTP/1.1\r\nHost: x\r\nContent-Length: 3\r\n\r\nabc" % i, b"abc"),
    "C": ("POST", lambda i: b"POST /%d HTTP/1.1\r\nHost: x\r\nTransfer-Encoding: chunked\r\n\r\n2\r\nab\r\n1\r\nc\r\n0\r\n\r\n" % i, b"abc"),
    # E: POST followed by the extraneous empty line some clients send (eaten once per request)
    "E": ("POST", lambda i: b"POST /%d HTTP/1.1\r\nHost: x\r\nContent-Length: 3\r\n\r\nabc\r\n" % i, b"abc"),
    # T: Expect: 100-continue (the channel writes the interim response itself when the headers are in)
    "T": ("POST", lambda i: b"POST /%d HTTP/1.1\r\nHost: x\r\nExpect: 100-continue\r\nContent-Length: 3\r\n\r\nabc" % i, b"abc"),
    "X": ("GET", lambda i: b"GET /%d HTTP/1.1\r\nHost: x\r\nConnection: close\r\n\r\n" % i, b""),
    "O": ("GET", lambda i: b"GET /%d HTTP/1.0\r\n\r\n" % i, b""),
}
SEGS = ["whole", "per-request", "mid-header", "near-end"]


def configs(tier):
    """(kinds, now-flags, seg, eager)"""
    out = []
    seqs = []
    mid = "GPCET"
    last = "GPCTXO"
    for a in last:
        seqs.append(a)
    for a in mid:
        for b in (last if tier != "quick" else "GCTXO"):
            seqs.append(a + b)
    if tier == "quick":
        seqs += ["GGG", "GPG", "PGX", "GEC", "TPG", "CGX"]
    else:
        for a in "GPE":
            for b in "GP":
                for c in "GCTX":
                    seqs.append(a + b + c)
    for kinds in seqs:
        n = len(kinds)
        for mask in range(1 << n):
            now = tuple(bool(mask >> i & 1) for i in range(n))
            for seg in SEGS:
                if n == 1 and seg == "per-request":
                    continue
                for eager in (None, 8):
                    if eager == 8 and seg == "whole" and n == 1:
                        continue
                    if tier == "quick" and n == 3 and (seg == "near-end" or (seg == "per-request" and eager is None)):
                        continue
                    # eager 8 + per-request: a whole pipelined request is buffered behind the one in
                    # progress and reading is paused (the read-ahead limit); + mid-header: a fragment is
                    if tier == "quick" and eager == 8 and seg not in ("mid-header", "per-request"):
                        continue
                    if tier != "quick" and n >= 2 and eager == 8 and seg in ("whole", "near-end"):
                        continue
                    if tier != "quick" and n == 3 and eager is None and seg in ("per-request", "near-end"):
                        continue
                    out.append((kinds, now, seg, eager))
    return out


def segments(kinds, seg):
    reqs = [KINDS[k][1](i) for i, k in enumerate(kinds)]
    stream = b"".join(reqs)
    if seg == "whole":
        return [stream]
    if seg == "per-request":
        return reqs
    cuts = []
    pos = 0
    for r in reqs:
        cuts.append(pos + (10 if seg == "mid-header" else len(r) - 2))
        pos += len(r)
    out, last = [], 0
    for c in cuts:
        out.append(stream[last:c])
        last = c
    out.append(stream[last:])
    return out


class Rec:
    def __init__(self, req, order, path, method, body):
        self.req = req
        self.order = order
        self.path = path
        self.method = method
        self.body = body
        self.finished = False
        self.parts = []
        self.wrote_extra = False
        self.notified_extra = False
        self.late_finish = False
        self.notifs = []     # one results list per Deferred


_REQ = None


def _req_class():
    global _REQ
    if _REQ is not None:
        return _REQ
    from twisted.web import http

    class PipelinedRequest(http.Request):
        def process(self):
            st = self.channel._verif
            order = len(st.handed)
            rec = Rec(self, order, self.path, self.method, self.content.read())
            unfinished = [r.order for r in st.handed if not r.finished]
            if unfinished:
                st.bad.append(("request-handed-while-previous-unfinished",
                               "request %r handed while #%r is still being answered" % (self.path, unfinished)))
            st.handed.append(rec)
            st.watch(rec)
            if order < len(st.now) and st.now[order]:
                st.finish(rec)

    _REQ = PipelinedRequest
    return _REQ


class St:
    def __init__(self, config):
        from twisted.web import http
        from twisted.internet.task import Clock
        from mc.net import MemTransport, connect
        self.config = config
        kinds, now, seg, eager = config
        self.kinds, self.now = kinds, now
        self.pieces = segments(kinds, seg)
        self.piece_i = 0
        self.delivered = 0
        self.handed = []
        self.bad = []
        self.lost = False
        self.paused = False
        self.flags = set()
        self.clock = Clock()
        ch = http.HTTPChannel()
        ch.callLater = self.clock.callLater
        ch.timeOut = 100
        ch.requestFactory = _req_class()
        if eager is not None:
            ch._optimisticEagerReadSize = eager
        ch._verif = self
        self.ch = ch
        self.t = connect(ch, MemTransport())
        # request i is complete once this many stream bytes were delivered
        self.ends = []
        pos = 0
        for i, k in enumerate(kinds):
            pos += len(KINDS[k][1](i))
            self.ends.append(pos)

    def watch(self, rec):
        res = []
        rec.notifs.append(res)
        d = rec.req.notifyFinish()
        d.addCallbacks(lambda v, res=res: res.append(("ok", v)),
                       lambda f, res=res: res.append(("fail", f)))

    def finish(self, rec):
        tail = b"[end%d]" % rec.order
        rec.req.write(tail)
        rec.parts.append(tail)
        rec.finished = True     # finish() hands over the next buffered request before it returns
        rec.req.finish()


def _guard(st, what, fn):
    try:
        fn()
    except Exception as e:   # nothing in the alphabet is allowed to raise, except finish() after the loss
        st.bad.append(("raised:%s@%s" % (type(e).__name__, what), "%s: %s" % (type(e).__name__, e)))


def apply(st, ev):
    from twisted.python.failure import Failure
    from twisted.internet.error import ConnectionDone
    op = ev[0]
    if op == "deliver":
        data = st.pieces[st.piece_i]
        st.piece_i += 1
        st.delivered += len(data)
        _guard(st, "deliver", lambda: st.ch.dataReceived(data))
        if st.handed and not st.handed[-1].finished and st.delivered > st.ends[min(len(st.handed), len(st.ends)) - 1]:
            st.flags.add("buffered-behind-unfinished")
    elif op == "finish":
        rec = st.handed[ev[1]]
        _guard(st, "finish", lambda: st.finish(rec))
    elif op == "write":
        rec = st.handed[ev[1]]
        rec.wrote_extra = True
        part = b"[part%d]" % rec.order
        rec.parts.append(part)
        _guard(st, "write", lambda: rec.req.write(part))
    elif op == "notify":
        rec = st.handed[ev[1]]
        rec.notified_extra = True
        _guard(st, "notifyFinish", lambda: st.watch(rec))
    elif op == "pause":
        st.paused = True
        st.flags.add("paused")
        _guard(st, "pauseProducing", st.ch.pauseProducing)
    elif op == "resume":
        st.paused = False
        _guard(st, "resumeProducing", st.ch.resumeProducing)
    elif op == "lose":
        st.lost = True
        if any(not r.finished for r in st.handed):
            st.flags.add("lost-with-request-pending")
        st.t.disconnected = True
        _guard(st, "connectionLost", lambda: st.ch.connectionLost(Failure(ConnectionDone())))
    elif op == "late-finish":
        rec = st.handed[ev[1]]
        rec.late_finish = True
        try:
            rec.req.write(b"[late]")
            rec.req.finish()
        except RuntimeError:
            pass    # documented: finish() after the connection was lost raises
        except Exception as e:
            st.bad.append(("raised:%s@finish-after-loss" % type(e).__name__, str(e)))
    else:
        raise ValueError(ev)


def enabled(st):
    evs = []
    if st.lost:
        for r in st.handed:
            if not r.finished and not r.late_finish:
                evs.append(("late-finish", r.order))
        return evs
    t = st.t
    if st.piece_i < len(st.pieces) and not t.disconnecting and t.producerState == "producing":
        evs.append(("deliver",))
    for r in st.handed:
        if not r.finished:
            evs.append(("finish", r.order))
            if not r.wrote_extra:
                evs.append(("write", r.order))
            if not r.notified_extra:
                evs.append(("notify", r.order))
    if t.producer is not None and not t.disconnecting:
        evs.append(("resume",) if st.paused else ("pause",))
    evs.append(("lose",))
    return evs


def invariant(st, hist):
    from twisted.python.failure import Failure
    out = list(st.bad)
    n = len(st.kinds)
    # ---- identity and order of what the application was handed
    for r in st.handed:
        if r.order >= n:
            out.append(("request-handed-twice-or-out-of-order",
                        "%d requests sent, application handed #%d (%r)" % (n, r.order + 1, r.path)))
            continue
        method, _mk, body = KINDS[st.kinds[r.order]]
        if r.path != b"/%d" % r.order or r.method != method.encode():
            out.append(("request-handed-twice-or-out-of-order",
                        "handed %r %r as request #%d" % (r.method, r.path, r.order)))
        elif r.body != body:
            out.append(("request-body-differs", "request #%d body %r, sent %r" % (r.order, r.body, body)))
    inflight = [r for r in st.handed if not r.finished]
    if len(inflight) > 1:
        out.append(("request-handed-while-previous-unfinished", "in progress: %r" % [r.order for r in inflight]))
    if out:
        return [("HTTPChannel:" + s, d) for s, d in out]
    # ---- a complete, deliverable request is not lost
    if not st.lost and not st.t.disconnecting and not st.paused and not inflight:
        complete = sum(1 for e in st.ends if e <= st.delivered)
        closing_kind = any(st.kinds[r.order] in "XO" for r in st.handed)
        if len(st.handed) < complete and not closing_kind:
            out.append(("pipelined-request-lost",
                        "%d complete requests delivered, nothing in progress, only %d handed to the application"
                        % (complete, len(st.handed))))
        # ... nor made undeliverable: once nothing is in progress and the transport is not
        # write-paused, the channel has resumed reading (it may keep reading paused only while a
        # request is in progress or while the transport asked it to wait)
        if st.t.producerState != "producing" and not closing_kind:
            out.append(("reading-never-resumed",
                        "nothing in progress, transport connected and not write-paused, but the channel left it "
                        "paused: %d of %d segments can never be delivered" % (len(st.pieces) - st.piece_i, len(st.pieces))))
    # ---- the wire
    data = st.t.value()
    # (the request after the handed ones may already have drawn its "100 Continue": the channel
    # answers Expect when the headers are in, before the body is complete)
    upto = min(len(st.handed) + (0 if inflight else 1), n)
    methods = [KINDS[k][0] for k in st.kinds[:upto]]
    resps, left, err, ninfo = parse_responses(data, methods, False) if methods else ([], data, None, 0)
    if err is not None or ninfo > st.kinds[:upto].count("T"):
        out.append(("responses-interleaved-or-corrupt", "h11: %s in %r" % (err, data[-200:])))
    else:
        if left:
            out.append(("responses-interleaved-or-corrupt", "bytes after the last expected response: %r" % left[:80]))
        for r in st.handed:
            exp = b"".join(r.parts)
            got = resps[r.order] if r.order < len(resps) else None
            close_delimited = st.kinds[r.order] == "O"
            if r.finished:
                done = got is not None and (got.complete or (close_delimited and st.t.disconnecting))
                if not done or got.body != exp or got.status != 200:
                    out.append(("responses-interleaved-or-corrupt",
                                "response #%d: %r, expected complete body %r; wire %r" % (
                                    r.order, got and got.as_tuple()[4:], exp, data[-160:])))
            else:
                if got is not None and (got.complete or got.body != exp[:len(got.body)] or got.status != 200):
                    out.append(("responses-interleaved-or-corrupt",
                                "unfinished response #%d: %r, written so far %r" % (r.order, got.as_tuple()[4:], exp)))
                if got is None and exp:
                    out.append(("responses-interleaved-or-corrupt", "response #%d: %r written, nothing on the wire" % (r.order, exp)))
        if len(resps) > len(st.handed):
            out.append(("responses-interleaved-or-corrupt", "%d responses for %d requests" % (len(resps), len(st.handed))))
    # ---- notifyFinish
    for r in st.handed:
        for res in r.notifs:
            if len(res) > 1:
                out.append(("notifyFinish-fired-twice", "request #%d: %r" % (r.order, res)))
            elif r.finished:
                if res != [("ok", None)]:
                    out.append(("notifyFinish-not-fired-with-None-on-finish", "request #%d finished: %r" % (r.order, res)))
            elif st.lost:
                if len(res) != 1 or res[0][0] != "fail" or not isinstance(res[0][1], Failure):
                    out.append(("notifyFinish-not-failed-on-connection-lost", "request #%d unfinished, connection lost: %r" % (r.order, res)))
            elif res:
                out.append(("notifyFinish-fired-early", "request #%d neither finished nor lost: %r" % (r.order, res)))
    return [("HTTPChannel:" + s, d) for s, d in out] if out else out


def _priv(obj, name, default=None):
    try:
        return getattr(obj, name)
    except Exception:
        return default


def canon(st):
    ch, t = st.ch, st.t
    recs = tuple((r.finished, tuple(r.parts), r.wrote_extra, r.notified_extra, r.late_finish,
                  tuple(len(x) for x in r.notifs)) for r in st.handed)
    buf = _priv(ch, "_dataBuffer", [])
    try:
        buf = b"".join(buf)
    except Exception:
        buf = repr(buf)
    return (st.piece_i, recs, st.lost, st.paused, t.value(), t.disconnecting, t.producerState, t.producer is not None,
            buf, _priv(ch, "_buffer"), _priv(ch, "line_mode"), _priv(ch, "_handlingRequest"),
            _priv(ch, "_waitingForTransport"), _priv(ch, "persistent"), len(_priv(ch, "requests", ())),
            _priv(ch, "_HTTPChannel__first_line"), _priv(ch, "_HTTPChannel__header"),
            _priv(ch, "length"), _priv(ch, "_savedTimeOut"), len(st.clock.getDelayedCalls()),
            type(_priv(ch, "_transferDecoder")).__name__, tuple(sorted(st.flags)))


def shards(tier, seed):
    cfgs = configs(tier)
    n = 64
    return [[k, n] for k in range(n) if cfgs[k::n]]


def run_shard(shard, tier, seed):
    k, n = shard
    depth = 9 if tier == "quick" else 12
    stats = Stats()
    for config in configs(tier)[k::n]:
        def on_state(st, hist, config=config):
            if len(config[0]) >= 2 and st.flags:
                stats.nt((config, canon(st)))
            for f in st.flags:
                stats.outcome(f)
            if st.handed and all(r.finished for r in st.handed) and len(st.handed) == len(config[0]):
                stats.outcome("all-answered")
            if st.t.disconnecting:
                stats.outcome("server-closed")
            if st.t.producerState == "paused":
                stats.outcome("reading-paused-by-channel")

        res = bfs(lambda: St(config), apply, enabled, canon, invariant, depth, on_state=on_state)
        stats.add_bfs(res, {"config": config})
        stats.count("configs")
        if res.samples and len(stats.samples) < 2:
            stats.samples.append({"config": config, "history": res.samples[-1]})
    return stats


def replay(w):
    config = tup(w["config"])
    config = (config[0], tuple(bool(x) for x in config[1]), config[2], config[3])
    st = St(config)
    hist = [tuple(ev) for ev in w["history"]]
    for ev in hist:
        apply(st, ev)
    return list(invariant(st, hist))
