"""C53 LogFile rotation: all short write/reopen histories (crash-free oracle after every step) and
every crash point inside the write that rotates, followed by recovery and further writes."""
import itertools, os, shutil
from mc.crashfs import CrashFS, Crash, crash_plans, real_open
from mc.runner import Stats, split

ID = "C53"
LEVEL = "fault_enumeration"
ENGINE = "mc.crashfs"
RULE = ("all histories of <= N operations over {write 1 byte, write 3 bytes, write a 2-byte UTF-8 text character, write 4 bytes, "
        "reopen} (second family: {write 1, 3, 4 bytes, external truncate-in-place + reopen, external move-away + reopen}, after which "
        "the reference stream is what the rotated files hold) for rotateLength in {1,3,4} x maxRotatedFiles in {None,1,2}; after every operation the rotated files (oldest "
        "first) + current file are compared with the stream written; every history whose last write rotates is re-run with a "
        "crash before each mutating system call of that write, then the log is reopened, two more writes are made and the files "
        "are checked again. Chunks carry distinct bytes so positions are unambiguous. non-trivial = distinct (config, history, "
        "crash plan) with a crash strictly inside rotate(), plus distinct crash-free histories with >= 1 rotation")
BOUNDS = {"quick": "N = 5 (both families)", "thorough": "N = 6 (both families)"}
ASSUMPTIONS = ["process-crash model (completed system calls persist; the log file is opened unbuffered by LogFile itself)"]
MIN = {"quick": {"evaluations": 275000, "nontrivial": 130000, "outcomes": 3}}

KINDS = ["b1", "b3", "t1", "b4", "reopen"]
# second family: an external tool takes the current file away (truncates it in place / renames it out of the
# directory) and the application calls reopen(), the documented use of reopen()
KINDS_EXT = ["b1", "b3", "b4", "xtr", "xmv"]
NOWRITE = ("reopen", "xtr", "xmv")
PRE = [0]       # rotated files that existed before the LogFile was created (current execution)
NEWROT = [0]    # rotations performed by the LogFile in the current execution
CONFIGS = [(rl, mx) for rl in (1, 3, 4) for mx in (None, 1, 2)]


def chunk(kind, k):
    if kind == "b1":
        return bytes([97 + k % 26])
    if kind == "b3":
        return bytes([65 + k % 26]) * 3
    if kind == "b4":
        return bytes([48 + k % 10]) * 4
    return chr(0xE0 + k % 30)      # str: one character, two UTF-8 bytes


def as_bytes(c):
    return c.encode("utf8") if isinstance(c, str) else c


def read_state(d):
    """(rotated files as {n: bytes}, current bytes or None)"""
    rot, cur = {}, None
    for name in os.listdir(d):
        with real_open(os.path.join(d, name), "rb") as f:
            data = f.read()
        if name == "log":
            cur = data
        elif name.startswith("log."):
            rot[int(name[4:])] = data
        else:
            rot[name] = data
    return rot, cur


def check_files(d, written, cfg, rotations, crashed, partial_ok=b""):
    """written: list of byte chunks completed.  Returns list of (sig, detail)."""
    rl, mx = cfg
    bad = []
    rot, cur = read_state(d)
    strange = [k for k in rot if not isinstance(k, int)]
    if strange:
        bad.append(("unexpected-file", repr(strange)))
        return bad
    stream = b"".join(written)
    nums = sorted(rot, reverse=True)
    retained = b"".join(rot[n] for n in nums) + (cur or b"")
    if not crashed:
        for n in nums:
            if len(rot[n]) < rl:
                bad.append(("rotated-file-shorter-than-rotateLength", "log.%d has %d bytes < %d" % (n, len(rot[n]), rl)))
        if mx is None:
            if retained != stream:
                bad.append(("data-lost-duplicated-or-reordered", "files hold %r, written %r" % (retained, stream)))
            if nums != list(range(len(nums), 0, -1)):
                bad.append(("rotated-numbering-gap", repr(nums)))
        else:
            if not stream.endswith(retained):
                bad.append(("retained-not-a-suffix", "files hold %r, written %r" % (retained, stream)))
            total = rotations + PRE[0]
            want = min(mx, total) if (NEWROT[0] or PRE[0] <= mx) else PRE[0]   # nothing is trimmed before the first rotation
            if len(nums) != want or nums != list(range(want, 0, -1)):
                bad.append(("retention-count", "rotated files %r, expected the newest %d" % (nums, want)))
        return bad
    # after a crash inside a rotating write: order must be preserved; without retention nothing lost
    full = stream + partial_ok
    if mx is None:
        if not (retained.startswith(stream) and full.startswith(retained)):
            bad.append(("crash:data-lost-duplicated-or-reordered", "files hold %r, completed writes %r" % (retained, stream)))
    else:
        # pieces must appear at increasing, non-overlapping positions of the stream
        pos = 0
        for piece in [rot[n] for n in nums] + [cur or b""]:
            if not piece:
                continue
            i = full.find(piece, pos)
            if i < 0:
                bad.append(("crash:retained-data-reordered-or-duplicated", "piece %r not found after position %d of %r" % (piece, pos, full)))
                break
            pos = i + len(piece)
    return bad


def run_history(d, cfg, hist, plan=None, tail=(), pre=0):
    """Run a history crash-free except that the *last* op runs under the crash plan.  Returns bad list and info.
    pre = number of rotated files (log.1 .. log.<pre>) that already exist when the LogFile is created
    (a restarted process; more than 9 exercises two-digit suffixes, more than maxRotatedFiles a lowered
    retention count)."""
    from twisted.python.logfile import LogFile
    shutil.rmtree(d, ignore_errors=True)
    os.makedirs(d)
    rl, mx = cfg
    written, bad, rotations, info = [], [], 0, {"rotating_last": False, "ops": []}
    for k in range(pre, 0, -1):
        content = bytes([0x80 + k]) * max(rl, 1)
        with real_open(os.path.join(d, "log.%d" % k), "wb") as f:
            f.write(content)
        written.append(content)
    PRE[0] = pre
    NEWROT[0] = 0
    lf = LogFile("log", d, rotateLength=rl, maxRotatedFiles=mx)

    def count_rot():
        return len([n for n in os.listdir(d) if n.startswith("log.")])

    def external(kind):
        """what happens outside the process before reopen(); returns nothing, adjusts the reference stream"""
        if kind == "reopen":
            return
        path = os.path.join(d, "log")
        if kind == "xtr":
            with real_open(path, "r+b") as f:
                f.truncate(0)
        else:
            os.rename(path, d + "-moved")
            os.remove(d + "-moved")
        # the bytes of the current file are gone: the reference stream is what the rotated files hold
        rot, _ = read_state(d)
        written[:] = [rot[n] for n in sorted(rot, reverse=True)]

    maxseen = 0
    for i, kind in enumerate(hist):
        last = i == len(hist) - 1
        c = None if kind in NOWRITE else chunk(kind, i)
        if last and plan is not None:
            fs = CrashFS(plan, root=d)
            with fs:
                try:
                    if c is None:
                        external(kind)
                        lf.reopen()
                    else:
                        lf.write(c)
                except Crash:
                    pass
            info["ops"] = fs.ops
            info["crashed"] = fs.crashed
            if fs.crashed:
                bad += check_files(d, written, cfg, rotations, True, as_bytes(c) if c is not None else b"")
                # recovery: a new process opens the log and keeps writing
                rot, cur = read_state(d)
                base = b"".join(rot[n] for n in sorted(rot, reverse=True)) + (cur or b"")
                lf2 = LogFile("log", d, rotateLength=rl, maxRotatedFiles=mx)
                extra = []
                for j, k2 in enumerate(tail):
                    c2 = chunk(k2, 20 + j)
                    lf2.write(c2)
                    extra.append(as_bytes(c2))
                lf2.close()
                rot, cur = read_state(d)
                nums = sorted(rot, reverse=True)
                retained = b"".join(rot[n] for n in nums) + (cur or b"")
                want = base + b"".join(extra)
                if mx is None:
                    if retained != want:
                        bad.append(("crash:later-writes-lose-or-reorder", "after recovery and %d writes files hold %r, expected %r" % (len(extra), retained, want)))
                elif not want.endswith(retained):
                    bad.append(("crash:later-writes-lose-or-reorder", "after recovery files hold %r, not a suffix of %r" % (retained, want)))
                return bad, info
            if c is not None:
                written.append(as_bytes(c))
            break
        before = sorted(n for n in os.listdir(d) if n.startswith("log."))
        cur_before = os.path.getsize(os.path.join(d, "log"))
        if c is None:
            external(kind)
            lf.reopen()
        else:
            lf.write(c)
            written.append(as_bytes(c))
        # a rotation happened iff the current file restarted
        if c is not None and os.path.getsize(os.path.join(d, "log")) == len(as_bytes(c)) and cur_before > 0:
            rotations += 1
            NEWROT[0] += 1
            if last:
                info["rotating_last"] = True
        bad += check_files(d, written, cfg, rotations, False)
        if bad:
            break
    info["rotations"] = rotations
    try:
        lf.close()
    except Exception:
        pass
    return bad, info


def histories(n):
    for L in range(1, n + 1):
        for h in itertools.product(KINDS, repeat=L):
            if h[0] == "reopen" or "reopenreopen" in "".join(h):
                continue
            yield h


def histories_ext(n):
    for L in range(2, n + 1):
        for h in itertools.product(KINDS_EXT, repeat=L):
            if not any(k in ("xtr", "xmv") for k in h) or h[-1] in ("xtr", "xmv"):
                continue
            yield h


PRE_CONFIGS = [((1, None), 10), ((3, None), 11), ((1, 2), 3), ((3, 1), 2), ((1, 12), 12)]


def shards(tier, seed):
    n = 5 if tier == "quick" else 6
    hs = list(histories(n))
    out = []
    for cfg in CONFIGS:
        for part in split(hs, 12 if tier == "quick" else 16):
            out.append((cfg, part, 0))
    hs3 = list(histories_ext(5 if tier == "quick" else 6))
    for cfg in CONFIGS:
        for part in split(hs3, 4 if tier == "quick" else 12):
            out.append((cfg, part, 0))
    hs2 = list(histories(3 if tier == "quick" else 4))
    for cfg, pre in PRE_CONFIGS:
        for part in split(hs2, 2 if tier == "quick" else 4):
            out.append((cfg, part, pre))
    return out


TAILS = [("b1", "b4"), ("b4", "b3")]


def run_shard(shard, tier, seed):
    cfg, hs, pre = shard
    cfg = tuple(cfg)
    st = Stats()
    d = "/dev/shm/verif-C53-%d" % os.getpid()
    try:
        for h in hs:
            bad, info = run_history(d, cfg, h, pre=pre)
            st.evaluations += 1
            st.outcome("rotations>=1" if info.get("rotations") else "no-rotation")
            if info.get("rotations"):
                st.nt((cfg, h, pre))
            for sig, detail in bad:
                st.violation(sig, {"what": detail, "config": cfg, "history": h}, {"config": cfg, "history": h, "plan": None, "tail": None, "pre": pre})
            if bad or not info.get("rotating_last"):
                continue
            # crash enumeration inside the rotating write
            b0, i0 = run_history(d, cfg, h, plan=(10 ** 6, None), pre=pre)
            ops = i0["ops"]
            for plan in crash_plans(ops):
                for tail in TAILS:
                    bad, info = run_history(d, cfg, h, plan=plan, tail=tail, pre=pre)
                    st.evaluations += 1
                    st.outcome("crash-in-rotate")
                    if 0 < plan[0]:
                        st.nt((cfg, h, plan, pre))
                    for sig, detail in bad:
                        st.violation(sig, {"what": detail, "config": cfg, "history": h, "plan": plan, "syscalls": ops},
                                     {"config": cfg, "history": h, "plan": plan, "tail": tail, "pre": pre})
            if len(st.samples) < 1:
                st.sample({"config": cfg, "history": h, "syscalls_of_rotating_write": ops})
    finally:
        shutil.rmtree(d, ignore_errors=True)
    return st


def replay(w):
    d = "/dev/shm/verif-C53-%d" % os.getpid()
    try:
        plan = tuple(w["plan"]) if w.get("plan") else None
        return run_history(d, tuple(w["config"]), tuple(w["history"]), plan=plan, tail=tuple(w.get("tail") or ()), pre=w.get("pre", 0))[0]
    finally:
        shutil.rmtree(d, ignore_errors=True)
