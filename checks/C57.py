"""C57 twisted.logger observers / level filter / limited history.

Three exhaustively enumerated parts, each driving the real objects against a
list/dict reference written here:

 P  LogPublisher: every history of add/remove/publish over a pool of three
    observers with every behaviour assignment (ok, raises on events, raises on
    everything, one-shot self-removing) and every initial constructor list.
 F  LogLevelFilterPredicate behind a FilteringLogObserver: every configuration
    history (set prefix level / clear) x every event namespace x every level.
 H  LimitedHistoryLogObserver: every size x every history of event/replay.
"""
import itertools

from mc.runner import Stats

ID = "C57"
LEVEL = "exploration"
TECHNIQUE = "stateless exhaustive enumeration of operation histories with a lock-step reference"
RULE = ("P: all ordered duplicate-free constructor lists over a pool of 3 observers x all behaviour assignments "
        "{ok, raise-on-events, raise-always, one-shot-self-remove}^3 x all histories of add(i)/remove(i)/"
        "publish(plain|log_trace) up to the depth bound; after every publish the per-event global call order, "
        "exactly-once delivery and the failure reports (identified by the Failure's exception object) are compared "
        "with a list reference.  F: all histories of setLogLevelForNamespace(prefix, level)/clearLogLevels up to the "
        "bound x constructor default x 9 event namespaces x 5 event levels, each history run twice: queried once at "
        "the end, and queried before the first and after every configuration change on the same predicate (lookups "
        "and events interleaved with set/clear on ancestors, descendants and the default; the reference is always "
        "evaluated on the current configuration), observed through FilteringLogObserver "
        "(forwarded vs negative observer), the predicate result and logLevelForNamespace against a most-specific-"
        "dotted-prefix reference.  H: sizes {None,0,1,2,3} x all event/replay histories.  non-trivial = a publish in "
        "which an observer raised or the registration list had changed before; a filter decision taken from a "
        "proper dotted prefix or after an override/clear; a replay after the buffer overflowed")
BOUNDS = {"quick": "P: 3 observers, histories <= 3 ops; F: config histories <= 3 ops (levels {debug,warn,critical} "
                   "at depth 3, all 5 at depth <= 2); H: histories <= 7",
          "thorough": "P: histories <= 4 ops; F: config histories <= 3 ops with all 5 levels; H: histories <= 10"}
ASSUMPTIONS = [
    "observers raise Exception subclasses only (the publisher documents nothing about BaseException)",
    "for a publish during which an observer removed itself, delivery to observers registered after it and report "
    "delivery to the removed observer are not judged (the statement does not say whose view of 'its observers' counts)",
    "nested failure reports (an observer failing while receiving a failure report) are not judged",
    "events without a level or a namespace are not judged by the filter part",
]
MIN = {"quick": {"evaluations": 2300000, "nontrivial": 940000, "outcomes": 10},
       "thorough": {"evaluations": 9400000, "nontrivial": 4000000, "outcomes": 10}}

CALL_CAP = 100
BEH = ["ok", "raise-ev", "raise-all", "oneshot"]
LEVELS = ["debug", "info", "warn", "error", "critical"]
PREFIXES = ["", "a", "a.b", "a.b.c", "ab"]
NAMESPACES = ["a", "a.b", "a.b.c", "a.b.c.d", "ab", "a.bc", "ab.c", "b", "b.a"]


# --------------------------------------------------------------------- part P

class Boom(Exception):
    def __init__(self, obs, about):
        Exception.__init__(self, "boom")
        self.obs = obs
        self.about = about


def classify(event):
    """What an observer was handed: an original event, a failure report about a Boom, or something else."""
    if "n" in event:
        return ("ev", event["n"])
    f = event.get("log_failure")
    exc = getattr(f, "value", None)
    if isinstance(exc, Boom):
        return ("rep", exc.obs, exc.about)
    return ("other",)


class Obs:
    def __init__(self, idx, beh, world):
        self.idx, self.beh, self.world = idx, beh, world
        self.fired = False

    def __call__(self, event):
        w = self.world
        what = classify(event)
        w.log.append((self.idx, what))
        if len(w.log) > CALL_CAP:
            # a correct publisher makes < 50 calls per publish here; stop feeding a runaway report loop
            w.runaway = True
            return
        if self.beh == "oneshot" and what[0] == "ev" and not self.fired:
            self.fired = True
            w.mutated.append(self.idx)
            w.pub.removeObserver(self)
        elif self.beh == "raise-all" or (self.beh == "raise-ev" and what[0] == "ev"):
            b = Boom(self.idx, what)
            w.raised.append(b)
            raise b

    def __repr__(self):
        return "<Obs %d %s>" % (self.idx, self.beh)


class World:
    def __init__(self, init, behs):
        from twisted.logger import LogPublisher
        self.log, self.mutated, self.raised = [], [], []
        self.runaway = False
        self.obs = [Obs(i, behs[i], self) for i in range(3)]
        self.pub = LogPublisher(*[self.obs[i] for i in init])
        self.reg = list(init)          # reference: registration order
        self.nev = 0
        self.changed = False


def p_step(w, op):
    """Execute one op on the real publisher and the reference; return violations [(sig, detail)]."""
    kind = op[0]
    if kind == "add":
        w.pub.addObserver(w.obs[op[1]])
        if op[1] not in w.reg:
            w.reg.append(op[1])
            w.changed = True
        return []
    if kind == "rem":
        w.pub.removeObserver(w.obs[op[1]])
        if op[1] in w.reg:
            w.reg.remove(op[1])
            w.changed = True
        return []
    # publish
    n = w.nev
    w.nev += 1
    event = {"n": n, "log_format": "e{n}"}
    if op[1]:
        event["log_trace"] = []
    del w.log[:], w.mutated[:], w.raised[:]
    reg = list(w.reg)
    bad = []
    try:
        w.pub(event)
    except Exception as e:  # the publisher must swallow observer exceptions
        return [("LogPublisher:publish-raised", "%s escaped publisher(event) with observers %r" % (type(e).__name__, reg))]
    if w.runaway:
        return [("LogPublisher:runaway-failure-reporting",
                 "more than %d observer calls for one event with observers %r" % (CALL_CAP, reg))]
    got = [o for (o, what) in w.log if what == ("ev", n)]
    if w.mutated:
        # a one-shot observer removed itself during delivery: judge only the unambiguous part
        first = reg.index(w.mutated[0])
        must = reg[:first + 1]
        if got[:len(must)] != must:
            bad.append(("LogPublisher:delivery-before-self-removal", "registered %r, called %r" % (reg, got)))
        if len(set(got)) != len(got):
            bad.append(("LogPublisher:event-delivered-twice", "registered %r, called %r" % (reg, got)))
        if [o for o in reg if o in got] != got:
            bad.append(("LogPublisher:delivery-order", "registered %r, called %r" % (reg, got)))
        for o in w.mutated:
            if o in w.reg:
                w.reg.remove(o)
                w.changed = True
        stable = [o for o in reg if o not in w.mutated]
    else:
        stable = reg
        if got != reg:
            if any(o not in reg for o in got):
                sig = "LogPublisher:delivered-to-unregistered-observer"
            elif len(set(got)) != len(got):
                sig = "LogPublisher:event-delivered-twice"
            elif set(got) != set(reg):
                sig = "LogPublisher:event-not-delivered"
            else:
                sig = "LogPublisher:delivery-order"
            bad.append((sig, "registered (in order) %r, called (in order) %r" % (reg, got)))
    # failure reports for the exceptions that were really raised on the original event
    for b in w.raised:
        if b.about != ("ev", n):
            continue
        for o in range(3):
            cnt = sum(1 for (oo, what) in w.log if oo == o and what == ("rep", b.obs, ("ev", n)))
            if o == b.obs:
                if cnt:
                    bad.append(("LogPublisher:failure-reported-to-failing-observer",
                                "observer %d received %d report(s) about its own failure; registered %r" % (o, cnt, reg)))
            elif o in stable:
                if cnt == 0:
                    bad.append(("LogPublisher:failure-report-missing",
                                "observer %d got no report about observer %d failing; registered %r" % (o, b.obs, reg)))
                elif cnt > 1:
                    bad.append(("LogPublisher:failure-report-duplicated",
                                "observer %d got %d reports about observer %d failing; registered %r" % (o, cnt, b.obs, reg)))
            elif o not in reg and cnt:
                bad.append(("LogPublisher:delivered-to-unregistered-observer",
                            "unregistered observer %d got a failure report; registered %r" % (o, reg)))
    return bad


P_OPS = [("add", 0), ("add", 1), ("add", 2), ("rem", 0), ("rem", 1), ("rem", 2), ("pub", 0), ("pub", 1)]
INITS = [list(p) for r in range(4) for p in itertools.permutations(range(3), r)]


def run_p(st, init, depth):
    for behs in itertools.product(BEH, repeat=3):
        for L in range(1, depth + 1):
            for ops in itertools.product(P_OPS, repeat=L):
                if ops[-1][0] != "pub":
                    continue   # histories are judged at publishes; a trailing add/remove observes nothing
                w = World(init, behs)
                st.evaluations += 1
                for k, op in enumerate(ops):
                    bad = p_step(w, op)
                    if op[0] == "pub":
                        if w.raised or w.changed:
                            st.nt(("P", tuple(init), behs, ops[:k + 1]))
                        st.outcome("P:raised" if w.raised else "P:clean")
                        if w.mutated:
                            st.outcome("P:self-removed")
                        if not w.reg:
                            st.outcome("P:no-observers")
                    if bad:
                        for sig, detail in bad:
                            st.violation(sig, detail, {"part": "P", "init": init, "behs": list(behs),
                                                       "ops": [list(o) for o in ops[:k + 1]]})
                        if st.counters.get("violating_executions", 0) > 40:
                            st.exhaustive = False   # enough witnesses; a broken publisher can be very slow
                            return
                        break
    st.sample({"part": "P", "init": init, "behs": list(behs), "ops": [list(o) for o in ops]})


# --------------------------------------------------------------------- part F

def ref_level(cfg, ns):
    best = None
    for p in cfg:
        if p and (ns == p or ns.startswith(p + ".")):
            if best is None or len(p) > len(best):
                best = p
    return cfg[best if best is not None else ""], best


def f_sweep(st, pred, flt, yes, no, const, cfg, touched, key):
    """Query every namespace (logLevelForNamespace, predicate, FilteringLogObserver) against the reference
    evaluated on the CURRENT configuration `cfg`."""
    from twisted.logger import PredicateResult
    bad = []
    for ns in NAMESPACES:
        want_level, via = ref_level(cfg, ns)
        got_level = pred.logLevelForNamespace(ns)
        if got_level is not const[want_level]:
            bad.append(("LogLevelFilterPredicate:logLevelForNamespace-wrong-prefix",
                        "config %r: namespace %r -> %s, reference %s (from %r)" % (
                            cfg, ns, getattr(got_level, "name", got_level), want_level, via)))
        for lv in LEVELS:
            ev = {"log_namespace": ns, "log_level": const[lv], "log_format": "x"}
            want = LEVELS.index(lv) >= LEVELS.index(want_level)
            del yes[:], no[:]
            flt(ev)
            res = pred(ev)
            st.evaluations += 1
            passed = (len(yes), len(no)) == (1, 0)
            dropped = (len(yes), len(no)) == (0, 1)
            if not (passed or dropped):
                bad.append(("FilteringLogObserver:event-not-routed-exactly-once",
                            "forwarded %d, negative %d" % (len(yes), len(no))))
            elif passed != want or (res is not PredicateResult.no) != want:
                bad.append(("LogLevelFilterPredicate:%s" % ("dropped-event-at-or-above-level" if want else "passed-event-below-level"),
                            "config %r: event %r level %s, effective level %s (from %r): forwarded=%s predicate=%s" % (
                                cfg, ns, lv, want_level, via, passed, getattr(res, "name", res))))
            st.outcome("F:pass" if want else "F:drop")
            if (via is not None and via != ns) or touched:
                st.nt(("F", key, ns, lv))
            if via is None:
                st.outcome("F:default-level")
            elif via == ns:
                st.outcome("F:exact-namespace")
            else:
                st.outcome("F:proper-prefix")
    return bad


def f_eval(st, default, ops, interleave=False):
    """Apply the configuration history to one real predicate.  interleave=False: query everything once at the
    end.  interleave=True: query everything before the first change and again after every change (lookups and
    events interleaved with set/clear on ancestors, descendants and the default).  Returns (violations, steps)."""
    from twisted.logger import LogLevel, LogLevelFilterPredicate, FilteringLogObserver
    const = {n: LogLevel.lookupByName(n) for n in LEVELS}
    pred = LogLevelFilterPredicate() if default is None else LogLevelFilterPredicate(defaultLogLevel=const[default])
    dflt = default or "info"
    cfg = {"": dflt}
    touched = False
    yes, no = [], []
    flt = FilteringLogObserver(yes.append, [pred], no.append)
    if interleave:
        bad = f_sweep(st, pred, flt, yes, no, const, cfg, False, (default, (), True))
        if bad:
            return bad, 0
    for k, op in enumerate(ops):
        if op[0] == "set":
            pred.setLogLevelForNamespace(op[1], const[op[2]])
            if op[1] in cfg:
                touched = True
            cfg[op[1]] = op[2]
        else:
            pred.clearLogLevels()
            cfg = {"": dflt}
            touched = True
        if interleave:
            st.outcome("F:queried-again-after-" + op[0])
            bad = f_sweep(st, pred, flt, yes, no, const, cfg, True, (default, ops[:k + 1], True))
            if bad:
                # does a fresh predicate given the same configuration answer correctly?  then the defect is state
                # carried over from the earlier lookups
                fresh, _ = f_eval(Stats(), default, ops[:k + 1], False)
                if not fresh:
                    bad = [(sig + ":stale-after-earlier-lookup", d) for sig, d in bad]
                return bad, k + 1
    if interleave:
        return [], len(ops)
    return f_sweep(st, pred, flt, yes, no, const, cfg, touched, (default, ops, False)), len(ops)


def f_configs(tier, first):
    """All config histories starting with `first` (None = the empty history)."""
    all_ops = [("set", p, l) for p in PREFIXES for l in LEVELS] + [("clear",)]
    few = [("set", p, l) for p in PREFIXES for l in ("debug", "warn", "critical")] + [("clear",)]
    if first is None:
        yield ()
        return
    yield (first,)
    for o2 in all_ops:
        yield (first, o2)
    third = all_ops if tier == "thorough" else few
    if tier == "thorough" or first in few:
        for o2 in third:
            for o3 in third:
                yield (first, o2, o3)


def run_f(st, default, firsts, tier):
    for first in firsts:
        first = tuple(first) if first is not None else None
        for ops in f_configs(tier, first):
            for inter in ((False, True) if ops else (False,)):
                bad, steps = f_eval(st, default, ops, inter)
                for sig, detail in bad:
                    st.violation(sig, detail, {"part": "F", "default": default, "interleave": inter,
                                               "ops": [list(o) for o in ops[:steps]]})
    st.sample({"part": "F", "default": default, "ops": [list(o) for o in ops]})


# --------------------------------------------------------------------- part H

def h_eval(st, size, ops):
    from twisted.logger import LimitedHistoryLogObserver
    h = LimitedHistoryLogObserver(size)
    model = []
    n = 0
    bad = []
    for op in ops:
        if op == "e":
            ev = {"n": n}
            n += 1
            h(ev)
            model.append(ev)
        else:
            out = []
            h.replayTo(out.append)
            if size is None:
                want = list(model)
            elif size == 0:
                want = []
            else:
                want = model[-size:]
            st.outcome("H:replay-empty" if not want else ("H:replay-truncated" if len(want) < len(model) else "H:replay-all"))
            if len(want) < len(model):
                st.nt(("H", size, ops))
            if out != want or any(a is not b for a, b in zip(out, want)):
                kind = ("wrong-count" if len(out) != len(want) else
                        "wrong-order" if sorted(e["n"] for e in out) == sorted(e["n"] for e in want) else "wrong-events")
                bad.append(("LimitedHistoryLogObserver:replay-" + kind,
                            "size %r after %d events: replayed %r, reference %r" % (
                                size, len(model), [e["n"] for e in out], [e["n"] for e in want])))
                break
    return bad


def run_h(st, tier):
    depth = 7 if tier == "quick" else 10
    for size in (None, 0, 1, 2, 3):
        for L in range(1, depth + 1):
            for ops in itertools.product("er", repeat=L):
                if ops[-1] != "r":
                    continue
                st.evaluations += 1
                for sig, detail in h_eval(st, size, ops):
                    st.violation(sig, detail, {"part": "H", "size": size, "ops": "".join(ops)})
    st.sample({"part": "H", "size": size, "ops": "".join(ops)})


# --------------------------------------------------------------------- plumbing

def shards(tier, seed):
    out = [["P", i] for i in range(len(INITS))]
    all_first = [None] + [["set", p, l] for p in PREFIXES for l in LEVELS] + [["clear"]]
    for default in (None, "debug", "error"):
        for k in range(9):
            out.append(["F", default, all_first[k::9]])
    out.append(["H"])
    return out


def run_shard(shard, tier, seed):
    st = Stats()
    if shard[0] == "P":
        run_p(st, INITS[shard[1]], 3 if tier == "quick" else 4)
    elif shard[0] == "F":
        run_f(st, shard[1], shard[2], tier)
    else:
        run_h(st, tier)
    return st


def replay(w):
    st = Stats()
    if w["part"] == "P":
        world = World(list(w["init"]), list(w["behs"]))
        out = []
        for op in w["ops"]:
            out = p_step(world, tuple(op))
        return out
    if w["part"] == "F":
        return f_eval(st, w["default"], tuple(tuple(o) for o in w["ops"]), bool(w.get("interleave")))[0]
    return h_eval(st, w["size"], tuple(w["ops"]))
