"""C15 model conformance (NOT part of ./check C15: it uses real loopback sockets and real time).

    /venv/bin/python checks/_c15_conformance.py          # all four real reactors, one subprocess each

Each child installs one real reactor, runs a handful of the C15 scripts on a real loopback TCP
connection (listenTCP/connectTCP) with every socket call of both transports recorded, and prints the
traces.  The parent then checks (1) the C15 oracle on what the protocols observed and (2) that every
recorded system-call outcome is one SimKernel allows in the state the preceding calls put it in
(real is a subset of model): send accepted k of n bytes / EAGAIN / error, recv returned k bytes / EOF /
EAGAIN / error, shutdown ok / error.
"""
import errno
import json
import os
import subprocess
import sys

HERE = os.path.dirname(os.path.abspath(__file__))
sys.path.insert(0, os.path.dirname(HERE))

SCRIPTS = [
    # (ops, pacing, closer, kind, half-closeable, scale, echo)
    ((("w", 12),), "burst", "A", "lose", 0, 1, 0),
    ((("w", 12), ("w", 5)), "burst", "A", "lose", 0, 30000, 0),
    ((("ws", (5, 0, 3)), ("w", 1)), "step", "A", "losew", 1, 30000, 0),
    ((("w", 3), ("w", 12)), "burst", "A", "losew", 0, 30000, 0),
    ((("w", 12),), "burst", "A", "abort", 0, 30000, 0),
    ((("w", 5),), "drain", "A", "abort", 1, 1, 0),
    ((("w", 12), ("w", 12)), "burst", "B", "lose", 0, 30000, 0),
    ((("w", 5),), "drain", "B", "lose", 1, 1, 0),
    ((("w", 12),), "step", "B", "losew", 1, 30000, 0),
    ((("w", 1),), "burst", "B", "abort", 0, 1, 0),
    ((("w", 12),), "burst", "B", "abort", 1, 30000, 0),
    ((("w", 12), ("w", 3)), "burst", "A", "lose", 1, 30000, 1),
    ((), "burst", "A", "lose", 1, 1, 0),
    ((("w", 0),), "burst", "B", "losew", 0, 1, 0),
]


def data_for(start, n):
    return bytes(((start + i) * 7 + 3) % 251 for i in range(n))


# ------------------------------------------------------------------------------------------------
# child: real reactor, real sockets

def child(rname):
    import socket
    if rname == "select":
        from twisted.internet import selectreactor
        selectreactor.install()
    elif rname == "poll":
        from twisted.internet import pollreactor
        pollreactor.install()
    elif rname == "epoll":
        from twisted.internet import epollreactor
        epollreactor.install()
    else:
        import asyncio
        from twisted.internet import asyncioreactor
        asyncioreactor.install(asyncio.new_event_loop())
    from zope.interface import implementer
    from twisted.internet import reactor, protocol, interfaces, defer

    class RecSock:
        def __init__(self, s, name, log):
            self.__dict__.update(_s=s, _name=name, _log=log)

        def __getattr__(self, k):
            return getattr(self._s, k)

        def _do(self, op, arg, f, *a):
            try:
                r = f(*a)
            except OSError as e:
                self._log.append([self._name, op, arg, "err", e.errno])
                raise
            self._log.append([self._name, op, arg, "ok", len(r) if isinstance(r, bytes) else r])
            return r

        def send(self, data, *fl):
            return self._do("send", len(data), self._s.send, data, *fl)

        def recv(self, n, *fl):
            return self._do("recv", n, self._s.recv, n, *fl)

        def shutdown(self, how):
            return self._do("shutdown", how, self._s.shutdown, how)

        def close(self):
            return self._do("close", 0, self._s.close)

        def setsockopt(self, level, opt, val):
            if level == socket.SOL_SOCKET and opt == socket.SO_LINGER:
                self._log.append([self._name, "linger0", 0, "ok", 0])
            return self._s.setsockopt(level, opt, val)

    class Plain(protocol.Protocol):
        def __init__(self, run, name):
            self.run, self.name = run, name
            self.got = bytearray()
            self.lost, self.rcl, self.wcl, self.late = [], 0, 0, 0

        def connectionMade(self):
            s = self.transport.getHandle()
            s.setsockopt(socket.SOL_SOCKET, socket.SO_SNDBUF, 4096)
            s.setsockopt(socket.SOL_SOCKET, socket.SO_RCVBUF, 4096)
            self.transport.socket = RecSock(s, self.name, self.run.log)
            self.run.made(self)

        def dataReceived(self, data):
            if self.lost:
                self.late += 1
            self.got += data

        def connectionLost(self, reason):
            self.lost.append(reason.type.__name__)
            self.run.lost()

    @implementer(interfaces.IHalfCloseableProtocol)
    class HC(Plain):
        def readConnectionLost(self):
            self.rcl += 1
            if self.rcl == 1:
                self.closed_self = True
                self.transport.loseConnection()

        def writeConnectionLost(self):
            self.wcl += 1

    class Run:
        def __init__(self, script):
            self.script = script
            self.log = []
            self.p = {}
            self.done = defer.Deferred()
            self.wrote = {"A": 0, "B": 0}
            self.closed_self = {"A": False, "B": False}
            self.timeout = None
            self.hang = False

        def made(self, p):
            self.p[p.name] = p
            if len(self.p) == 2:
                reactor.callLater(0, self.go)

        def lost(self):
            if all(p.lost for p in self.p.values()) and len(self.p) == 2 and not self.done.called:
                reactor.callLater(0.02, self.finish)

        def finish(self):
            if self.done.called:
                return
            if self.timeout.active():
                self.timeout.cancel()
            self.done.callback(None)

        def on_timeout(self):
            self.hang = True
            for p in self.p.values():
                if not p.lost:
                    p.transport.abortConnection()
            reactor.callLater(0.1, lambda: self.done.called or self.done.callback(None))

        def write(self, side, op, scale):
            t = self.p[side].transport
            if op[0] == "w":
                n = op[1] * scale
                t.write(data_for(self.wrote[side], n))
                self.wrote[side] += n
            else:
                chunks = []
                for k in op[1]:
                    chunks.append(data_for(self.wrote[side], k * scale))
                    self.wrote[side] += k * scale
                t.writeSequence(chunks)

        @defer.inlineCallbacks
        def go(self):
            from twisted.internet.task import deferLater
            ops, pacing, closer, kind, hc, scale, echo = self.script
            self.timeout = reactor.callLater(10, self.on_timeout)
            gap = {"burst": None, "step": 0.0, "drain": 0.05}[pacing]
            if echo:
                self.write("B", ("w", 5), scale)
            for op in ops:
                self.write("A", op, scale)
                if gap is not None:
                    yield deferLater(reactor, gap, lambda: None)
            t = self.p[closer].transport
            if not self.p[closer].lost:
                if kind == "lose":
                    self.closed_self[closer] = True
                    t.loseConnection()
                elif kind == "losew":
                    self.closed_self[closer] = True
                    t.loseWriteConnection()
                else:
                    t.abortConnection()

        def result(self):
            out = {"script": self.script, "log": self.log, "hang": self.hang, "sides": {}}
            for s, p in self.p.items():
                o = "B" if s == "A" else "A"
                w = data_for(0, self.wrote[o])
                got = bytes(p.got)
                out["sides"][s] = {"lost": p.lost, "rcl": p.rcl, "wcl": p.wcl, "late": p.late, "got": len(got),
                                   "peer_wrote": self.wrote[o], "prefix_ok": got == w[:len(got)],
                                   "closed_self": self.closed_self[s] or getattr(p, "closed_self", False)}
            return out

    results = []

    @defer.inlineCallbacks
    def main():
        for script in SCRIPTS:
            run = Run(script)
            P = HC if script[4] else Plain
            sf = protocol.Factory.forProtocol(lambda: P(run, "B"))
            cf = protocol.ClientFactory.forProtocol(lambda: P(run, "A"))
            port = reactor.listenTCP(0, sf, interface="127.0.0.1")
            reactor.connectTCP("127.0.0.1", port.getHost().port, cf)
            yield run.done
            yield port.stopListening()
            results.append(run.result())
        reactor.stop()

    reactor.callWhenRunning(main)
    reactor.run()
    json.dump({"reactor": rname, "class": type(reactor).__name__, "results": results}, sys.stdout)


# ------------------------------------------------------------------------------------------------
# parent: oracle + "does the model allow this trace"

class Forced:
    def __init__(self):
        self.next = 0
        self.trace = []

    def choose(self, n, label=None, free=False):
        c, self.next = self.next, 0
        if c >= n:
            raise AssertionError("forced answer out of range")
        return c


def allows(log):
    """Replay a recorded system-call trace on SimKernel (unbounded pipe); list the outcomes the model does not allow."""
    from checks import _c15_kernel as K
    ch = Forced()
    k = K.SimKernel(ch, cap=1 << 40)
    a, b = k.socketpair()
    socks = {"A": a, "B": b}
    bad = []
    for i, (side, op, arg, st, res) in enumerate(log):
        s = socks[side]
        where = "#%d %s.%s(%s) -> %s %s" % (i, side, op, arg, st, res)
        if op == "linger0":
            s.linger0 = True
        elif op == "close":
            ch.next = 0
            s.close()
        elif op == "shutdown":
            try:
                s.shutdown(arg)
                m = "ok"
            except OSError:
                m = "err"
            if m != st:
                bad.append(where + " (model: %s)" % m)
        elif op == "send":
            if st == "ok":
                if s.err or s.wr_shut or s.reset:
                    bad.append(where + " (model: error)")
                    continue
                if arg and not s.peer.closed:
                    if not 1 <= res <= arg:
                        bad.append(where + " (model: accepts 1..n)")
                        continue
                    ch.next = arg - res
                s.send(b"\0" * arg)
            elif res in (errno.EAGAIN, errno.EWOULDBLOCK):
                if s.err or s.wr_shut or s.reset or s.peer.closed or not s.peer.rx:
                    bad.append(where + " (model: pipe is empty or the socket is dead, EAGAIN impossible)")
            else:
                try:
                    s.send(b"\0" * arg)
                    bad.append(where + " (model: accepted)")
                except BlockingIOError:
                    bad.append(where + " (model: EAGAIN)")
                except OSError:
                    pass
        elif op == "recv":
            if st == "ok" and res > 0:
                if not 1 <= res <= min(arg, len(s.rx)):
                    bad.append(where + " (model: %d bytes queued)" % len(s.rx))
                    continue
                del s.rx[:res]
            else:
                if s.rx and s.reset and st == "err" and res not in (errno.EAGAIN, errno.EWOULDBLOCK):
                    del s.rx[:]      # model choice "rst-drop": those bytes were still in the aborting side's send queue
                    if not s.fin_read:
                        s.fin_rcvd = False
                elif not s.rx and s.reset and s.fin_rcvd and not s.fin_read and st == "err":
                    s.fin_rcvd = False    # "rst-drop" of the FIN alone
                if s.rx:
                    bad.append(where + " (model: %d bytes queued)" % len(s.rx))
                    continue
                try:
                    r = s.recv(arg)
                    m = ("ok", 0) if r == b"" else ("ok", len(r))
                except BlockingIOError:
                    m = ("err", "eagain")
                except OSError:
                    m = ("err", "error")
                obs = (st, 0) if st == "ok" else ("err", "eagain" if res in (errno.EAGAIN, errno.EWOULDBLOCK) else "error")
                if m != obs:
                    bad.append(where + " (model: %s %s)" % m)
    return bad, k


def oracle(r, model_rst):
    ops, pacing, closer, kind, hc, scale, echo = r["script"]
    bad = []
    if r["hang"]:
        bad.append("timeout: a side never got connectionLost")
    rst = model_rst
    for s, d in r["sides"].items():
        o = "B" if s == "A" else "A"
        if not d["prefix_ok"]:
            bad.append("%s received bytes that are not a prefix of what %s wrote" % (s, o))
        if d["late"]:
            bad.append("%s got dataReceived after connectionLost" % s)
        if len(d["lost"]) != 1:
            bad.append("%s got %d connectionLost calls" % (s, len(d["lost"])))
        elif kind != "abort" and not rst and d["lost"][0] != "ConnectionDone":
            bad.append("%s: orderly close reported as %s" % (s, d["lost"][0]))
        if kind != "abort" and not rst and r["sides"][o]["closed_self"] and d["got"] != d["peer_wrote"]:
            bad.append("%s received %d of %d bytes although %s closed in an orderly way" % (s, d["got"], d["peer_wrote"], o))
        if d["rcl"] > 1 or d["wcl"] > 1:
            bad.append("%s: half-close notification repeated" % s)
    return bad


def main():
    env = dict(os.environ, PYTHONPATH=os.environ.get("VERIF_REPO_SRC", "/repo/src") + ":" + os.path.dirname(HERE),
               PYTHONDONTWRITEBYTECODE="1")
    failed = 0
    for rname in ("select", "poll", "epoll", "asyncio"):
        p = subprocess.run([sys.executable, os.path.abspath(__file__), "--child", rname], capture_output=True, text=True,
                           env=env, timeout=600)
        if p.returncode != 0:
            print("%s: child failed\n%s" % (rname, p.stderr[-2000:]))
            failed += 1
            continue
        out = json.loads(p.stdout)
        ncalls = partial = eagain = 0
        for r in out["results"]:
            mism, k = allows(r["log"])
            obad = oracle(r, k.rst)
            ncalls += len(r["log"])
            partial += sum(1 for e in r["log"] if e[1] == "send" and e[3] == "ok" and e[4] < e[2])
            eagain += sum(1 for e in r["log"] if e[3] == "err" and e[4] == errno.EAGAIN)
            if mism or obad:
                failed += 1
                print("%s %r:" % (rname, r["script"]))
                for m in mism[:6]:
                    print("   model does not allow: " + m)
                for m in obad:
                    print("   oracle: " + m)
                print("   sides: %r" % r["sides"])
        print("%s (%s): %d scripts, %d recorded socket calls, %d short sends, %d EAGAIN" % (
            rname, out["class"], len(out["results"]), ncalls, partial, eagain))
    print("CONFORMANCE " + ("FAILED (%d)" % failed if failed else "OK"))
    return 1 if failed else 0


if __name__ == "__main__":
    if len(sys.argv) > 2 and sys.argv[1] == "--child":
        child(sys.argv[2])
    else:
        sys.exit(main())
