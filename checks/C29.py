"""C29 HTTP/2 flow control: explicit-state BFS over a real twisted.web._http2.H2Connection (server) that talks to an
h2 client state machine through an in-memory wire; a harness-side window ledger + the h2 client decide safety, a
"fair completion" run from every reached state decides resumption/completeness."""
import os
import sys

# stand-in for the uninstallable `priority` package: on THIS module's sys.path only (never in /venv)
_STUB = os.path.join(os.path.dirname(os.path.dirname(os.path.abspath(__file__))), "vendor", "priority_stub")
if _STUB not in sys.path:
    sys.path.insert(0, _STUB)

from mc.bfs import bfs  # noqa: E402
from mc.runner import Stats  # noqa: E402

ID = "C29"
LEVEL = "model_checking"
TECHNIQUE = "explicit-state BFS over the real H2Connection/H2Stream against an h2 client, window ledger + completion oracle"
RULE = ("BFS over histories of {resource writes 1 byte / the rest, resource finishes, client WINDOW_UPDATE (connection or stream, +1/+w), "
        "client SETTINGS INITIAL_WINDOW_SIZE in {0,1,w,2w}, one reactor iteration (runs the callLater(0) send loop once), deliver pending "
        "server bytes to the client} on a real H2Connection(reactor=Clock) serving real http.Request objects over mc.net.MemTransport, for "
        "every configuration (initial stream window w, connection window c, 1-2 streams with body sizes from {0,1,w-1,w,w+1,2w}, each written "
        "directly or by a push producer that honours pause/resume, both service orders of the priority stand-in). After every transition: every "
        "DATA frame the server wrote fits the harness ledger of the stream and connection windows, is the next slice of the expected body, and "
        "the h2 client accepts the bytes. In every new canonical state a fair completion is run on the real objects: the client opens the "
        "windows (by WINDOW_UPDATE, and - when something is blocked - separately by SETTINGS alone / by a connection WINDOW_UPDATE alone where that suffices), the loop runs to quiescence: all bytes written so "
        "far must arrive and paused producers must be resumed (and, with nothing granted at all, the loop runs until it idles: progress must "
        "equal the granted window - written bytes may be held back and a producer stay paused only while the stream or connection window "
        "of the ledger is exhausted, and END_STREAM must follow a finished, fully sent body without any further grant); then the resources finish and every body must arrive complete, in order, ended. "
        "non-trivial = distinct canonical states in which a stream was blocked on flow control (queued data the window does not admit, a paused "
        "producer, or a window <= 0)")
BOUNDS = {
    "quick": "w in {1,2,5}; connection window c in {65535, 1}; 1 stream: all body sizes {0,1,w-1,w,w+1,2w} x {direct, producer}, BFS depth 6 "
             "(writes of 1 byte or the rest); 2 streams: bodies (w+1|2w) x (1|w), modes direct/direct and producer/direct, both service orders, "
             "depth 4 (whole-body writes); <= 2 client frames (WINDOW_UPDATE/SETTINGS) per history; plus the completion run (<= 80 loop "
             "iterations per phase) from every state",
    "thorough": "w in {1,2,5}; c in {65535, 1, w}; 1 stream: depth 8, <= 3 client frames (<= 2 SETTINGS); 2 streams: bodies (w+1|2w) x (1|w|w+1), "
                "5 mode/service-order variants (dd both orders, pd, dp, pp), depth 5, <= 2 client frames; completion run from every state",
}
ASSUMPTIONS = [
    "trusted base: h2's client-side window accounting, the 9-byte frame header parser and window ledger in this file, and the round-robin "
    "`priority` stand-in (vendor/priority_stub; both rotation orders explored)",
    "client-to-server frames are delivered immediately (the server's knowledge of the windows equals what the client sent, which makes the "
    "ledger exact); server-to-client delivery is an explicit event",
    "one 'tick' = one reactor iteration: delayed calls scheduled during the iteration run in the next one (ReactorBase.runUntilCurrent semantics)",
    "a connection window below 65535 is produced honestly by a prelude stream that consumes 65535-c bytes which the client never acknowledges",
    "h2 quirk: the h2 client rejects an *empty* DATA frame while its own SETTINGS have made its receive window negative "
    "(window_consumed(0)); such a frame is legal (RFC 7540 6.9.1), so in exactly that situation the harness books the frame itself",
    "canonical state = harness ledger (windows, bytes written/sent/received, flags, counters), decoded undelivered frames, and - for merging "
    "only - the server's queues, priority flags, parked/scheduled loop and h2 windows read defensively",
    "transport back-pressure on the H2Connection (pauseProducing from the TCP transport) and RST_STREAM are outside the statement and not in the alphabet",
]
MIN = {"quick": {"states": 155000, "nontrivial": 125000, "outcomes": 10, "closures": 380000},
       "thorough": {"states": 1300000, "nontrivial": 1000000, "outcomes": 10, "closures": 2300000}}

LEVEL_TEXT = ("bounded model checking: every history up to the stated depth over the stated alphabet and configurations is executed on the real "
              "H2Connection/H2Stream/http.Request objects; safety is decided by an exact window ledger plus the h2 client, resumption and "
              "completeness by a completion run from every canonical state")
LEVEL_NOTE = ("trusts h2's state machines and the round-robin priority stand-in; not covered: histories beyond the depth bound, windows/bodies "
              "larger than 2w, more than 2 streams, RST_STREAM, request bodies, transport back-pressure on the connection")

BIG = 1000
CONN0 = 65535
HDRS = [(b":method", b"GET"), (b":path", b"/"), (b":scheme", b"https"), (b":authority", b"x")]
LOOP_LIMIT = 80

_mods = {}
_cur = [None]     # the St whose action is being executed (for the log observer)
_stray = []       # logged failures that could not be attributed


def _T():
    """twisted / h2 imports, once."""
    if not _mods:
        import h2.config, h2.connection, h2.events, h2.exceptions, h2.settings
        from twisted.internet.task import Clock
        from twisted.web import http
        from twisted.web import _http2
        from mc.net import MemTransport

        class IterClock(Clock):
            """iterate() == one reactor iteration: only calls that are due *now* run; calls they schedule wait."""

            def due(self):
                now = self.seconds()
                return [c for c in list(self.calls) if c.getTime() <= now]

            def iterate(self):
                for c in self.due():
                    if c in self.calls:
                        self.calls.remove(c)
                        c.called = 1
                        c.func(*c.args, **c.kw)

        class HReq(http.Request):
            def __init__(self, channel, queued, st):
                http.Request.__init__(self, channel, queued)
                self._c29 = st

            def process(self):
                self._c29.request_arrived(self)

        class Wire(MemTransport):
            def __init__(self, st):
                MemTransport.__init__(self)
                self._c29 = st

            def write(self, data):
                if not isinstance(data, (bytes, bytearray)):
                    raise TypeError("Data must be bytes")
                if data:
                    self._c29.server_wrote(bytes(data))

        # failures that end up in a Deferred nobody looks at (the send loop also runs as a Deferred callback) are reported
        # through twisted.logger when the Deferred is released; attribute them to the state whose action is running
        from twisted.logger import globalLogBeginner

        def observer(event):
            f = event.get("log_failure")
            if f is None:
                return
            cur = _cur[0]
            if cur is None:
                _stray.append(f.type.__name__)
            else:
                cur.logged_failure(f)

        globalLogBeginner.beginLoggingTo([observer], redirectStandardIO=False, discardBuffer=True)
        _mods.update(h2=h2, Clock=IterClock, http=http, _http2=_http2, HReq=HReq, Wire=Wire,
                     IWS=h2.settings.SettingCodes.INITIAL_WINDOW_SIZE)
    return _mods


class PreludeFailed(Exception):
    """the fixed opening exchange (handshake, window-consuming prelude stream, request HEADERS) already went wrong"""

    def __init__(self, bad, msg):
        Exception.__init__(self, msg)
        self.bad = list(bad)


class Producer:
    """IPushProducer that honours back-pressure: the harness lets it write only while it is not paused."""

    def __init__(self):
        self.paused = False
        self.stopped = False
        self.resumed = 0

    def pauseProducing(self):
        self.paused = True

    def resumeProducing(self):
        self.paused = False
        self.resumed += 1

    def stopProducing(self):
        self.stopped = True


class Rec:
    def __init__(self, sid, size, mode, base):
        self.sid, self.size, self.mode = sid, size, mode
        self.body = bytes((base + j) % 256 for j in range(size))
        self.written = 0
        self.finished = False
        self.prod = None
        self.req = None
        self.sent = bytearray()     # DATA payload the server wrote (decoded by the harness)
        self.got = bytearray()      # DATA payload the client received
        self.cl_ended = False
        self.cl_headers = False
        self.wu = 0                 # stream WINDOW_UPDATE total sent by the client
        self.wrote_closed = False   # unsent bytes were written while the ledger window was <= 0


class St:
    def __init__(self, cfg):
        m = _T()
        h2 = m["h2"]
        w, c, specs, pick, fill = cfg
        self.cfg = cfg
        self.w, self.c = w, c
        self.bad = []
        self.flags = set()
        self.dead = False
        self.loop_exc = None
        self.loop_exc_neg = False
        self.recv_exc = None
        self.write_exc = None
        self.other_failures = []
        self.goaway = False
        self.reset = set()
        self.n_wu = self.n_set = 0
        self.n_written = 0
        self.buf = bytearray()      # undecoded server output
        self.wire = bytearray()     # undelivered server output (whole frames)
        self.wire_frames = []
        self.wire_raw = []
        self.ref_conn = CONN0       # ledger: what the server may still send on the connection
        self.ref_win = {}           # ledger per stream id
        self.srv_iws = CONN0        # INITIAL_WINDOW_SIZE the server has been told
        self.srv_ended = set()
        self.cl_unacked = []
        self.cl_acked = CONN0
        self.reqs = {}
        self.by_sid = {}
        self.s = []
        _cur[0] = self
        self.clock = m["Clock"]()
        srv = self.srv = m["_http2"].H2Connection(reactor=self.clock)
        srv.callLater = self.clock.callLater          # TimeoutMixin seam: never the global reactor
        srv.requestFactory = lambda channel, queued=False: m["HReq"](channel, queued, self)
        srv.factory = None
        srv.site = None
        if hasattr(srv.priority, "pick"):
            srv.priority.pick = pick
        self.tr = m["Wire"](self)
        self.tr.protocol = srv
        srv.makeConnection(self.tr)
        cl = self.cl = h2.connection.H2Connection(config=h2.config.H2Configuration(client_side=True, header_encoding=None))
        cl.initiate_connection()
        self.to_server()
        self.deliver()
        nxt = 1
        if c is not None:
            # prelude: consume 65535-c bytes of the connection window on a stream of its own
            self.ref_win[nxt] = self.srv_iws
            cl.send_headers(nxt, HDRS, end_stream=True)
            self.to_server()
            req = self.reqs[nxt]
            req.write(b"z" * (CONN0 - c))
            req.finish()
            self.run_quiet(40)
            self.deliver()
            if self.ref_conn != c or self.bad or self.loop_exc:
                raise PreludeFailed(self.bad + ([("H2Connection:send-loop-died:%s:in-prelude" % self.loop_exc, "")] if self.loop_exc else []),
                                    "prelude failed: conn window %r, want %r, bad=%r" % (self.ref_conn, c, self.bad))
            nxt += 2
        self.client_set(w)
        self.deliver()
        for i, (size, mode) in enumerate(specs):
            r = Rec(nxt, size, mode, (0x41 if i == 0 else 0x61) + fill)
            self.s.append(r)
            self.by_sid[nxt] = r
            self.ref_win[nxt] = self.srv_iws
            cl.send_headers(nxt, HDRS, end_stream=True)
            self.to_server()
            r.req = self.reqs.get(nxt)
            if r.req is None:
                raise RuntimeError("request %d did not reach the resource" % nxt)
            nxt += 2
        self.n_wu = self.n_set = 0
        self.flags.clear()
        if self.bad or self.dead or self.loop_exc:
            raise PreludeFailed(self.bad, "setup failed: %r loop_exc=%r" % (self.bad, self.loop_exc))
        _cur[0] = None

    def logged_failure(self, f):
        self.other_failures.append(f.type.__name__)     # a hint for the detail text only

    def _watch(self, fn):
        """The send loop also runs as the callback of the Deferred it parks on; an exception there ends up in that
        Deferred instead of propagating.  Look at the Deferred the loop was parked on (private, read defensively, used
        only to name the failure - the verdict comes from the completion run) and consume its failure."""
        from twisted.python.failure import Failure
        d0 = getattr(self.srv, "_sendingDeferred", None)
        fn()
        if d0 is not None and getattr(self.srv, "_sendingDeferred", None) is not d0:
            res = getattr(d0, "result", None)
            if isinstance(res, Failure):
                self._loop_raised(res.value)
                d0.addErrback(lambda f: None)

    def _loop_raised(self, e):
        if self.loop_exc is None:
            self.loop_exc = type(e).__name__
            self.loop_exc_neg = any(self.ref_win[r.sid] < 0 for r in self.s if r.sid not in self.srv_ended)
            self.loop_exc_detail = str(e)

    # ---- server side hooks
    def request_arrived(self, req):
        sid = req.channel.streamID
        self.reqs[sid] = req
        r = self.by_sid.get(sid)
        if r is not None and r.mode == "p":
            r.prod = Producer()
            req.registerProducer(r.prod, True)

    def server_wrote(self, data):
        """Decode whole frames; ledger check for DATA at the moment the server writes it."""
        self.buf += data
        self.n_written += 1
        buf = self.buf
        while len(buf) >= 9:
            ln = int.from_bytes(buf[0:3], "big")
            if len(buf) < 9 + ln:
                break
            typ, fl = buf[3], buf[4]
            sid = int.from_bytes(buf[5:9], "big") & 0x7FFFFFFF
            payload = bytes(buf[9:9 + ln])
            self.wire += buf[:9 + ln]
            self.wire_raw.append(bytes(buf[:9 + ln]))
            del buf[:9 + ln]
            self.wire_frames.append((typ, fl, sid, None if typ == 1 else payload))
            if typ == 0:
                self._data_frame(sid, fl, ln, payload)
            elif typ == 1 and fl & 0x1:
                self._end(sid)
            elif typ == 3:
                self.reset.add(sid)
            elif typ == 7:
                self.goaway = True

    def _data_frame(self, sid, fl, ln, payload):
        if sid in self.srv_ended:
            self.bad.append(("H2Connection:DATA-after-END_STREAM", "stream %d" % sid))
        if ln > 0:
            sw = self.ref_win.get(sid)
            if sw is None or ln > sw:
                self.bad.append(("H2Connection:DATA-exceeds-stream-window",
                                 "stream %d: DATA of %d bytes, stream window %r" % (sid, ln, sw)))
            if ln > self.ref_conn:
                self.bad.append(("H2Connection:DATA-exceeds-connection-window",
                                 "stream %d: DATA of %d bytes, connection window %d" % (sid, ln, self.ref_conn)))
            if sw is not None:
                self.ref_win[sid] = sw - ln
            self.ref_conn -= ln
        if fl & 0x8 and payload:
            payload = payload[1:len(payload) - payload[0]]
        r = self.by_sid.get(sid)
        if r is not None:
            r.sent += payload
            if len(r.sent) >= r.written:
                r.wrote_closed = False
            if bytes(r.sent) != r.body[:len(r.sent)] or len(r.sent) > r.written:
                self.bad.append(("H2Connection:DATA-not-the-next-slice-of-the-body",
                                 "stream %d: server has sent %r, resource wrote %r" % (sid, bytes(r.sent), r.body[:r.written])))
        if fl & 0x1:
            self._end(sid)

    def _end(self, sid):
        self.srv_ended.add(sid)
        r = self.by_sid.get(sid)
        if r is not None and bytes(r.sent) != r.body:
            self.bad.append(("H2Connection:END_STREAM-before-body-complete",
                             "stream %d ended after %r of %r (finished=%r)" % (sid, bytes(r.sent), r.body, r.finished)))

    # ---- wire
    def to_server(self, data=None):
        if data is None:
            data = self.cl.data_to_send()
        if not data or self.dead:
            return
        try:
            self._watch(lambda: self.srv.dataReceived(data))
        except Exception as e:  # a real transport logs this and drops the connection
            self.recv_exc = "%s: %s" % (type(e).__name__, e)
            self.dead = True

    def deliver(self):
        if not self.wire:
            return
        m = _T()
        h2 = m["h2"]
        frames = list(zip(self.wire_frames, self.wire_raw))
        del self.wire[:]
        del self.wire_frames[:]
        del self.wire_raw[:]
        for (typ, fl, sid, payload), raw in frames:
            if typ == 0 and len(raw) == 9 and sid in self.by_sid:
                # h2 quirk (trusted base): WindowManager.window_consumed(0) raises when the client's own SETTINGS made its
                # receive window negative, although an empty DATA frame is legal at any window (RFC 7540 6.9.1/6.9.2).
                # In exactly that situation the harness books the empty frame itself.
                try:
                    neg = self.cl.remote_flow_control_window(sid) < 0
                except Exception:
                    neg = False
                if neg:
                    self.flags.add("empty-DATA-at-negative-client-window")
                    if fl & 0x1:
                        r = self.by_sid[sid]
                        r.cl_ended = True
                        if bytes(r.got) != r.body:
                            self.bad.append(("H2Connection:client-saw-END_STREAM-before-body-complete",
                                             "stream %d: got %r of %r" % (sid, bytes(r.got), r.body)))
                    continue
            try:
                self._client_events(self.cl.receive_data(raw))
            except h2.exceptions.ProtocolError as e:
                self.bad.append(("H2Connection:client-rejected-server-bytes:%s" % type(e).__name__,
                                 "%s (frame type %d flags %d stream %d length %d)" % (e, typ, fl, sid, len(raw) - 9)))
                self.dead = True
                return
        self.to_server()

    def _client_events(self, events):
        ev = _T()["h2"].events
        for e in events:
            if isinstance(e, ev.DataReceived):
                r = self.by_sid.get(e.stream_id)
                if r is not None:
                    r.got += e.data
                    if bytes(r.got) != r.body[:len(r.got)]:
                        self.bad.append(("H2Connection:client-received-body-out-of-order",
                                         "stream %d: got %r of %r" % (e.stream_id, bytes(r.got), r.body)))
            elif isinstance(e, ev.ResponseReceived):
                r = self.by_sid.get(e.stream_id)
                if r is not None:
                    r.cl_headers = True
            elif isinstance(e, ev.StreamEnded):
                r = self.by_sid.get(e.stream_id)
                if r is not None:
                    r.cl_ended = True
                    if bytes(r.got) != r.body:
                        self.bad.append(("H2Connection:client-saw-END_STREAM-before-body-complete",
                                         "stream %d: got %r of %r" % (e.stream_id, bytes(r.got), r.body)))
            elif isinstance(e, ev.SettingsAcknowledged):
                if self.cl_unacked:
                    self.cl_acked = self.cl_unacked.pop(0)
            elif isinstance(e, ev.StreamReset):
                self.reset.add(e.stream_id)
            elif isinstance(e, ev.ConnectionTerminated):
                self.goaway = True
        self.to_server()

    # ---- client actions
    def client_wu(self, sid, inc):
        self.cl.increment_flow_control_window(inc, sid or None)
        if sid:
            if sid in self.srv_ended:
                self.flags.add("late-window-update")
            self.ref_win[sid] += inc
            self.by_sid[sid].wu += inc
        else:
            self.ref_conn += inc
        self.to_server()

    def client_set(self, v):
        self.cl.update_settings({_T()["IWS"]: v})
        self.cl_unacked.append(v)
        delta = v - self.srv_iws
        self.srv_iws = v
        for sid in self.ref_win:
            if sid not in self.srv_ended:
                self.ref_win[sid] += delta
        self.to_server()

    # ---- loop
    def tick(self):
        try:
            self.clock.iterate()
        except Exception as e:  # a real reactor logs an exception from a delayed call and carries on
            self._loop_raised(e)

    def run_quiet(self, limit=LOOP_LIMIT, idle_stop=None):
        """run the loop until nothing is scheduled (or, with idle_stop, until that many iterations in a row wrote nothing:
        the loop polls a stream whose window is closed once per iteration for ever)"""
        n = idle = 0
        while n < limit and self.clock.due():
            before = self.n_written
            self.tick()
            n += 1
            if idle_stop is not None:
                idle = idle + 1 if self.n_written == before else 0
                if idle >= idle_stop:
                    break
        return n

    # ---- resource actions
    def write(self, r, n):
        data = r.body[r.written:r.written + n]
        r.written += len(data)
        if data and min(self.ref_win[r.sid], self.ref_conn) <= 0:
            r.wrote_closed = True
        try:
            self._watch(lambda: r.req.write(data))
        except Exception as e:
            if self.write_exc is None:
                self.write_exc = "write: %s: %s" % (type(e).__name__, e)

    def finish(self, r):
        r.finished = True
        def fin():
            if r.prod is not None:
                r.req.unregisterProducer()
            r.req.finish()
        try:
            self._watch(fin)
        except Exception as e:
            if self.write_exc is None:
                self.write_exc = "finish: %s: %s" % (type(e).__name__, e)

    def can_write(self, r):
        return (not r.finished and r.written < r.size and (r.prod is None or not r.prod.paused))

    def can_finish(self, r):
        return (not r.finished and r.written == r.size and (r.prod is None or not r.prod.paused))

    def blocked(self):
        """something waits for a window to open (harness-side knowledge only)"""
        return any((r.prod is not None and r.prod.paused and not r.finished) or r.written > len(r.sent) for r in self.s)

    def end_pending(self):
        """a finished response whose END_STREAM the server has not written yet"""
        return any(r.finished and r.sid not in self.srv_ended for r in self.s)

    def all_done(self):
        return all(r.cl_ended and bytes(r.got) == r.body for r in self.s)


# -------------------------------------------------------------------------------------------------- events
def set_values(w):
    out = []
    for v in (0, 1, w, 2 * w):
        if v not in out:
            out.append(v)
    return out


def enabled(st, wu_max=2, set_max=2, cf_max=4, whole=False):
    if st.dead:
        return []
    if st.n_wu + st.n_set >= cf_max:
        wu_max = set_max = 0
    evs = []
    for i, r in enumerate(st.s):
        if st.can_write(r):
            rest = r.size - r.written
            if not whole or rest == 1:
                evs.append(("w", i, 1))
            if rest > 1:
                evs.append(("w", i, rest))
        if st.can_finish(r):
            evs.append(("f", i))
    if st.clock.due():
        evs.append(("t",))
    if st.wire:
        evs.append(("d",))
    if st.n_wu < wu_max:
        incs = (1,) if st.w == 1 else (1, st.w)
        for inc in incs:
            evs.append(("wu", 0, inc))
        for i, r in enumerate(st.s):
            if not r.cl_ended:
                for inc in incs:
                    evs.append(("wu", i + 1, inc))
    if st.n_set < set_max:
        for v in set_values(st.w):
            if v != st.srv_iws:
                evs.append(("set", v))
    return evs


def apply(st, ev):
    _cur[0] = st
    try:
        _apply(st, ev)
    finally:
        _cur[0] = None


def _apply(st, ev):
    op = ev[0]
    if op == "w":
        st.write(st.s[ev[1]], ev[2])
    elif op == "f":
        st.finish(st.s[ev[1]])
    elif op == "t":
        st.tick()
    elif op == "d":
        st.deliver()
    elif op == "wu":
        st.n_wu += 1
        st.client_wu(st.s[ev[1] - 1].sid if ev[1] else 0, ev[2])
    elif op == "set":
        st.n_set += 1
        st.flags.add("settings-down" if ev[1] < st.srv_iws else "settings-up")
        st.client_set(ev[1])
    else:
        raise ValueError(ev)


# -------------------------------------------------------------------------------------------------- oracle
def _loop_sig(st):
    return "H2Connection:send-loop-died:%s:%s" % (
        st.loop_exc, "stream-window-negative-after-SETTINGS-decrease" if st.loop_exc_neg else "stream-windows-nonnegative")


def closure(st, mode):
    """Fair completion from the current state, on the real objects (destroys st).  mode 'wu': the client opens every
    window with WINDOW_UPDATE (the connection window only where it binds); mode 'conn': a connection WINDOW_UPDATE alone
    (used where that suffices); mode 'set': the stream windows are opened by SETTINGS INITIAL_WINDOW_SIZE alone."""
    if st.dead:
        return []
    _cur[0] = st
    try:
        return _closure(st, mode)
    finally:
        _cur[0] = None


def _progress(st):
    """mode 'run': nothing is granted.  The loop runs until it idles; progress must equal the window the peer has granted:
    a stream may keep written bytes back only while its stream window or the connection window (ledger) is exhausted,
    and a producer may stay paused only while nothing more fits."""
    st.run_quiet(LOOP_LIMIT, idle_stop=2 * len(st.s) + 2)
    out = list(st.bad)
    if st.recv_exc and not st.all_done():
        out.append(("H2Connection:dataReceived-raised:%s" % st.recv_exc.split(":")[0], st.recv_exc))
    if out:
        return out
    hints = "loop_exc=%r write_exc=%r other=%r goaway=%r reset=%r due=%d" % (
        st.loop_exc, st.write_exc, st.other_failures, st.goaway, sorted(st.reset), len(st.clock.due()))
    for r in st.s:
        room = min(st.ref_win[r.sid], st.ref_conn)
        unsent = r.written - len(r.sent)
        asleep = r.prod is not None and r.prod.paused and not r.finished
        if r.finished and unsent == 0 and r.sid not in st.srv_ended:
            # END_STREAM (an empty DATA frame) needs no flow-control credit: once the resource has finished and every body
            # byte is out, it must follow without any further grant, whatever the windows are
            act = getattr(st.srv.priority, "_active", {}).get(r.sid)
            sig = _loop_sig(st) if st.loop_exc else "H2Connection:END_STREAM-withheld-after-finish-with-body-fully-sent:%s:%s" % (
                "window-exhausted" if room <= 0 else "window-open",
                {True: "stream-unblocked-but-send-loop-idle", False: "stream-left-blocked-in-priority-tree"}.get(act, "?"))
            out.append((sig, "stream %d (%s, body %d): finish() was called and all %d body bytes were sent, the loop idles, but END_STREAM was "
                        "not sent (stream window %d, connection %d); %s" % (
                            r.sid, r.mode, r.size, len(r.sent), st.ref_win[r.sid], st.ref_conn, hints)))
            continue
        if room <= 0 or not (unsent > 0 or asleep):
            continue
        if st.loop_exc:
            sig = _loop_sig(st)
        elif unsent > 0:
            act = getattr(st.srv.priority, "_active", {}).get(r.sid)
            sig = "H2Connection:queued-data-held-back-although-window-open:%s:%s" % (
                "written-at-closed-window" if r.wrote_closed else "written-at-open-window",
                {True: "stream-unblocked-but-send-loop-idle", False: "stream-left-blocked-in-priority-tree"}.get(act, "?"))
        else:
            sig = "H2Stream:producer-left-paused-although-window-open"
        out.append((sig, "stream %d (%s, body %d): the loop idles, the ledger still admits %d bytes (stream window %d, connection %d) but %s; "
                    "written %d, sent %d; %s" % (
                        r.sid, r.mode, r.size, room, st.ref_win[r.sid], st.ref_conn,
                        "%d written bytes are held back" % unsent if unsent > 0 else "the producer is still paused with nothing queued",
                        r.written, len(r.sent), hints)))
    return out


def _closure(st, mode):
    if mode == "run":
        return _progress(st)
    how = {"wu": "WINDOW_UPDATE", "conn": "WINDOW_UPDATE", "set": "SETTINGS-window-increase"}[mode]
    todo = sum(r.size - len(r.sent) for r in st.s)
    if mode == "wu":
        # connection window only if it is (or will be) binding, so that the stream branch of _handleWindowUpdate is on its own
        if st.ref_conn <= todo:
            st.client_wu(0, BIG)
        for r in st.s:
            if not r.cl_ended:
                st.client_wu(r.sid, BIG)
    elif mode == "conn":
        st.client_wu(0, BIG)
    else:
        if st.ref_conn <= todo:
            st.client_wu(0, BIG)
        st.client_set(BIG)
    st.run_quiet()
    st.deliver()
    out = list(st.bad)
    if st.recv_exc and not st.all_done():
        out.append(("H2Connection:dataReceived-raised:%s" % st.recv_exc.split(":")[0], st.recv_exc))
    if out:
        return out
    hints = "loop_exc=%r write_exc=%r other=%r goaway=%r reset=%r" % (st.loop_exc, st.write_exc, st.other_failures, st.goaway, sorted(st.reset))
    # phase 1: what was blocked has resumed
    for r in st.s:
        unsent = r.written > len(r.got)
        asleep = r.prod is not None and r.prod.paused and not r.finished
        if not (unsent or asleep):
            continue
        if st.loop_exc:
            sig = _loop_sig(st)
        elif mode == "set":
            sig = "H2Connection:stream-blocked-on-flow-control-not-resumed-after-SETTINGS-window-increase"
        elif unsent:
            # which half of the hand-over failed: the priority stand-in (ours) knows whether the stream was unblocked
            act = getattr(st.srv.priority, "_active", {}).get(r.sid)
            sig = "H2Connection:queued-data-not-sent-after-WINDOW_UPDATE:%s:%s" % (
                "written-at-closed-window" if r.wrote_closed else "written-at-open-window",
                {True: "stream-unblocked-but-send-loop-idle", False: "stream-left-blocked-in-priority-tree"}.get(act, "?"))
        else:
            sig = "H2Stream:paused-producer-not-resumed-after-WINDOW_UPDATE"
        out.append((sig, "stream %d (%s, body %d): window opened by %s (ledger: stream %d, connection %d) but %s; "
                    "written %d, client has %d; %s" % (
                        r.sid, r.mode, r.size, how, st.ref_win[r.sid], st.ref_conn,
                        "bytes the resource wrote were not sent" if unsent else "the paused producer was not resumed",
                        r.written, len(r.got), hints)))
    if out:
        return out
    # phase 2: the resources write the rest and finish; everything must arrive
    for _ in range(6):
        moved = False
        for r in st.s:
            if st.can_write(r):
                st.write(r, r.size - r.written)
                moved = True
            if st.can_finish(r):
                st.finish(r)
                moved = True
        if st.run_quiet():
            moved = True
        if st.wire:
            st.deliver()
            moved = True
        if not moved:
            break
    out = list(st.bad)
    if st.recv_exc and not st.all_done():
        out.append(("H2Connection:dataReceived-raised:%s" % st.recv_exc.split(":")[0], st.recv_exc))
    if out:
        return out
    hints = "loop_exc=%r write_exc=%r other=%r goaway=%r reset=%r" % (st.loop_exc, st.write_exc, st.other_failures, st.goaway, sorted(st.reset))
    for r in st.s:
        if r.cl_ended and bytes(r.got) == r.body:
            continue
        if st.loop_exc:
            sig = _loop_sig(st)
        elif r.prod is not None and r.prod.paused and not r.finished:
            sig = "H2Stream:producer-paused-with-open-window:%s" % how
        else:
            sig = "H2Connection:response-incomplete-at-quiescence-with-open-windows:%s" % how
        out.append((sig, "stream %d (%s): client has %r of %r, END_STREAM seen=%r, server sent %r, finished=%r; %s" % (
            r.sid, r.mode, bytes(r.got), r.body, r.cl_ended, bytes(r.sent), r.finished, hints)))
    return out


def conn_only(st):
    """only the connection window stands in the way: the connection branch of _handleWindowUpdate is on its own"""
    todo = sum(r.size - len(r.sent) for r in st.s)
    return st.ref_conn <= todo and all(st.ref_win[r.sid] > r.size - len(r.sent) for r in st.s if r.sid not in st.srv_ended)


def invariant(st, hist):
    out = list(st.bad)
    if st.recv_exc and not st.all_done():
        out.append(("H2Connection:dataReceived-raised:%s" % st.recv_exc.split(":")[0], st.recv_exc))
    if not out and st.loop_exc and not getattr(st, "_judged", False):
        # the send loop raised: judge by the consequence, on a copy (the state itself stays intact)
        st._judged = True
        out.extend(closure(build(st.cfg, hist), "wu"))
    return out


def build(cfg, hist):
    st = St(cfg)
    for ev in hist:
        apply(st, tuple(ev))
    return st


def canon(st):
    srv = st.srv
    hc = srv.conn
    qs = getattr(srv, "_outboundStreamQueues", {})
    pr = srv.priority
    per = []
    for r in st.s:
        q = qs.get(r.sid)
        try:
            lw = hc.local_flow_control_window(r.sid)
        except Exception:
            lw = None
        try:
            cw = st.cl.remote_flow_control_window(r.sid)
        except Exception:
            cw = None
        hs = srv.streams.get(r.sid)
        per.append((r.written, r.finished, None if r.prod is None else (r.prod.paused, r.prod.stopped),
                    len(r.sent), len(r.got), r.cl_ended, r.cl_headers, st.ref_win[r.sid], r.sid in st.srv_ended,
                    None if q is None else tuple(len(x) if isinstance(x, bytes) else -1 for x in q),
                    lw, cw, None if hs is None else getattr(hs, "_producerProducing", None)))
    return (tuple(per), st.ref_conn, st.srv_iws, tuple(st.cl_unacked), st.cl_acked, st.n_wu, st.n_set,
            tuple(st.wire_frames), len(st.clock.calls), st.loop_exc, st.write_exc, st.dead, st.goaway, tuple(sorted(st.reset)),
            getattr(srv, "_sendingDeferred", None) is not None,
            tuple(sorted(getattr(pr, "_active", {}).items())), tuple(getattr(pr, "_rotation", ())),
            getattr(hc, "outbound_flow_control_window", None))


# -------------------------------------------------------------------------------------------------- shards
def bodies(w):
    out = []
    for b in (0, 1, w - 1, w, w + 1, 2 * w):
        if b not in out:
            out.append(b)
    return out


def configs(tier):
    """(kind, w, c, specs, pick)"""
    out = []
    for w in (1, 2, 5):
        cs = [None, 1] if tier == "quick" else [None, 1] + ([w] if w != 1 else [])
        for c in cs:
            for b in bodies(w):
                for mode in ("d", "p"):
                    out.append((1, w, c, [[b, mode]], "first"))
            if tier == "quick":
                pairs = [(a, b) for a in sorted({w + 1, 2 * w}) for b in sorted({1, w})]
                modes = ["dd", "pd"]
                variants = [(mm, pick) for mm in modes for pick in ("first", "last")]
            else:
                pairs = [(a, b) for a in sorted({w + 1, 2 * w}) for b in sorted({1, w, w + 1})]
                variants = [("dd", "first"), ("dd", "last"), ("pd", "first"), ("dp", "last"), ("pp", "first")]
            for a, b in pairs:
                for mm, pick in variants:
                    out.append((2, w, c, [[a, mm[0]], [b, mm[1]]], pick))
    return out


def shards(tier, seed):
    return [list(c) for c in configs(tier)]


def params(tier, nstreams):
    if tier == "quick":
        return {"depth": 6 if nstreams == 1 else 4, "wu_max": 2, "set_max": 2, "cf_max": 2, "whole": nstreams == 2}
    if nstreams == 1:
        return {"depth": 8, "wu_max": 3, "set_max": 2, "cf_max": 3, "whole": False}
    return {"depth": 5, "wu_max": 2, "set_max": 2, "cf_max": 2, "whole": True}


def run_shard(shard, tier, seed):
    n, w, c, specs, pick = shard
    cfg = [w, c, specs, pick, seed % 3]
    p = params(tier, n)
    stats = Stats()

    def en(st):
        return enabled(st, p["wu_max"], p["set_max"], p["cf_max"], p["whole"])

    def judge(st, hist, mode):
        stats.count("closures")
        for sig, detail in closure(st, mode):
            stats.violation(sig, detail, {"cfg": cfg, "history": [list(e) for e in hist], "closure": mode})
        if st.all_done():
            stats.outcome("closure-complete")

    def on_state(st, hist):
        blocked = st.blocked()
        neg = any(st.ref_win[r.sid] < 0 for r in st.s)
        zero = any(min(st.ref_win[r.sid], st.ref_conn) <= 0 for r in st.s if r.sid not in st.srv_ended)
        if blocked or zero:
            stats.nt((tuple(map(str, shard)), canon(st)))
        if blocked:
            stats.outcome("blocked-on-flow-control")
            if any(st.ref_win[r.sid] > 0 and st.ref_conn <= 0 and r.written > len(r.sent) for r in st.s):
                stats.outcome("blocked-on-connection-window-only")
        if neg:
            stats.outcome("negative-stream-window")
        for r in st.s:
            if r.prod is not None:
                if r.prod.paused:
                    stats.outcome("producer-paused")
                if r.prod.resumed:
                    stats.outcome("producer-resumed")
        for f in st.flags:
            stats.outcome(f)
        if st.loop_exc:
            stats.outcome("send-loop-raised")
        if getattr(st.srv, "_sendingDeferred", None) is not None:
            stats.outcome("loop-parked")
        elif st.clock.due() and blocked:
            stats.outcome("loop-scheduled-while-blocked")
        if st.all_done():
            stats.outcome("all-bodies-complete")
        if blocked or st.end_pending():
            judge(build(cfg, hist), hist, "run")
        if blocked:
            judge(build(cfg, hist), hist, "set")
            if conn_only(st):
                stats.outcome("only-connection-window-blocks")
                judge(build(cfg, hist), hist, "conn")
        judge(st, hist, "wu")      # destroys st; bfs rebuilds before it expands

    try:
        St(cfg)
    except PreludeFailed as e:
        if not e.bad:
            raise
        for sig, detail in e.bad:       # twisted broke the opening exchange: a violation, not a harness error
            stats.violation(sig, "%s (in the prelude: %s)" % (detail, e), {"cfg": cfg, "history": []})
        return stats
    res = bfs(lambda: St(cfg), apply, en, canon, invariant, p["depth"], max_violations=10 ** 6, on_state=on_state)
    on_state(St(cfg), [])
    stats.add_bfs(res, {"cfg": cfg})
    if _stray:
        stats.count("stray_logged_failures", len(_stray))
        del _stray[:]
    stats.samples = [{"cfg": cfg, "history": h} for h in res.samples[-1:]]
    return stats


def replay(w):
    cfg = w["cfg"]
    hist = [tuple(e) for e in w["history"]]
    try:
        st = build(cfg, hist)
    except PreludeFailed as e:
        return list(e.bad)
    out = list(invariant(st, hist))
    if w.get("closure"):
        out.extend(closure(build(cfg, hist), w["closure"]))
    return out
