#!/venv/bin/python
"""Regenerate MANIFEST.json from the check modules (checks/Cxx.py) and properties.jsonl."""
import importlib, json, os, sys
ROOT = os.path.dirname(os.path.dirname(os.path.abspath(__file__)))
sys.path.insert(0, ROOT)
props = [json.loads(l) for l in open(os.path.join(ROOT, "properties.jsonl"))]
PENDING = {}
pp = os.path.join(ROOT, "tools", "not_applicable.json")
if os.path.exists(pp):
    PENDING = json.load(open(pp))
READY = set(open(os.path.join(ROOT, "tools", "ready.txt")).read().split())
checks, na = [], []
engines = {}
for p in props:
    pid = p["id"]
    path = os.path.join(ROOT, "checks", pid + ".py")
    if not os.path.exists(path) or pid in PENDING or pid not in READY:
        na.append({"property_id": pid, "reason": PENDING.get(pid, "check not built yet; the planned bounded-exhaustive design is DESIGN.md section 2 (%s)" % pid)})
        continue
    m = importlib.import_module("checks." + pid)
    eng = getattr(m, "ENGINE", "mc.bfs" if m.LEVEL == "model_checking" else "mc.choice")
    engines.setdefault(eng, []).append(pid)
    c = {
        "property_id": pid,
        "quick_cmd": "./check %s --tier quick" % pid,
        "thorough_cmd": "./check %s --tier thorough" % pid,
        "evidence_file": "/verif/evidence/%s.json" % pid,
        "replay_cmd_template": "./check %s --replay {path}" % pid,
        "engine": eng,
        "level_claimed": {"category": m.LEVEL,
                          "text": getattr(m, "LEVEL_TEXT", m.RULE),
                          "design_ref": "DESIGN.md section 2, " + pid},
        "level_note": getattr(m, "LEVEL_NOTE", "; ".join(getattr(m, "ASSUMPTIONS", [])) or "real objects driven in-process; bounds as stated in the evidence file"),
        "technique": getattr(m, "TECHNIQUE", {
            "model_checking": "explicit-state BFS over the real objects with a lock-step reference model (bounded exhaustive)",
            "exploration": "bounded exhaustive enumeration of inputs/segmentations/operation sequences on the real code",
            "fault_enumeration": "exhaustive enumeration of crash points / environment faults of bounded histories on the real code"}[m.LEVEL]),
    }
    checks.append(c)
kinds = {"mc.bfs": "explicit-state search over real objects (state = history, canonical hashing)",
         "mc.choice": "stateless deviation-bounded enumeration of choice sequences / inputs / segmentations",
         "mc.sched": "controlled thread scheduler, iterative context bounding over real threads",
         "mc.crashfs": "crash-point and partial-write enumeration over a real scratch directory",
         "mc.tlc": "TLA+ cross-model checked by TLC, all model traces replayed on the implementation"}
man = {
    "version": 1,
    "setup_cmd": "./tools/setup.sh",
    "hooks": {"guard": "TWISTED_VERIF", "enable": "no source hooks: every seam is reached from outside the repository (constructor injection, subclassing, module-global rebinding at run time); ./check exports TWISTED_VERIF=1 for uniformity",
              "baseline_off_cmd": "cd /repo && env -u TWISTED_VERIF /venv/bin/python -m pytest -ra -q -p no:cacheprovider --timeout=900 --continue-on-collection-errors",
              "source_commits": [], "add_only": True},
    "engines": [{"name": e, "path": "/verif/mc/%s.py" % e.split(".")[1], "serves_properties": sorted(v), "kind_free_text": kinds.get(e, "")} for e, v in sorted(engines.items())],
    "checks": checks,
    "notes": "All checks: ./check <ID> --tier quick|thorough; fresh /venv/bin/python on /repo/src (editable install) each run. Known findings: /verif/known_findings.json.",
    "not_applicable": na,
}
json.dump(man, open(os.path.join(ROOT, "MANIFEST.json"), "w"), indent=1)
print("checks=%d not_applicable=%d" % (len(checks), len(na)))
