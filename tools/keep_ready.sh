#!/bin/bash
# copy every confirmed seed (demo fails with / passes without the change, whole pinned suite passes with it,
# check evaluated) into /verif/seeded/
for d in /tmp/seeded-out/C*/; do d=${d%/}
  [ -f $d/eval_result.json ] && [ -f $d/suite_result.json ] || continue
  /venv/bin/python - "$d" <<'P' || continue
import json,sys
d=sys.argv[1]
s=json.load(open(d+'/suite_result.json')); e=json.load(open(d+'/eval_result.json'))
ok = not s['stable_not_passing'] and s['stable_missing']==0 and 'passed' in e['demo_on_clean_tree'] and 'failed' not in e['demo_on_clean_tree'] and ('failed' in e['demo_with_change'] or 'error' in e['demo_with_change'].lower())
sys.exit(0 if ok else 1)
P
  /verif/tools/keep_seed.py $d
done | sort | awk '{print} /MISSED/{m++} /detected/{k++} END{print "kept:",k+m,"detected:",k,"missed:",m}'
