#!/venv/bin/python
"""Regenerate the machine-written parts of DESIGN.md section 5 (between the GENERATED markers):
known findings, fixed defects, seeded changes and which check catches them, measured coverage."""
import glob, json, os, re
ROOT = os.path.dirname(os.path.dirname(os.path.abspath(__file__)))
k = json.load(open(os.path.join(ROOT, "known_findings.json")))
findings = list(k["findings"])
for fn in sorted(glob.glob(os.path.join(ROOT, "known", "*.json"))):
    findings += json.load(open(fn))["findings"]
out = []
out.append("### 5.3 Genuine defects repaired (`fix:` commits in /repo)\n")
out.append("Each entry: property, commit, what failed before the repair.  The check passes on the repaired tree with no KNOWN-FINDING line and reports the violation again if it returns.\n")
for line in k["fixed"]:
    m = re.match(r"fixed: property=(\S+) (\S+) (.*)", line)
    out.append("* **%s** `%s` — %s" % (m.group(1), m.group(2), m.group(3)))
out.append("\n### 5.4 Genuine defects recorded as known findings (`known_findings.json`)\n")
out.append("Each is identified by an exact signature (component : failure kind : minimal shape), so a different violation of the same property is still reported as a VIOLATION.\n")
for f in sorted(findings, key=lambda f: (f["property"], f["signature"])):
    out.append("* **%s** `%s` — %s" % (f["property"], f["signature"], f["what"]))
out.append("\n### 5.5 Seeded property-breaking changes (`/verif/seeded/`) and the checks that catch them\n")
out.append("Written by independent sub-agents that saw only the property text; each passes the repository's own pinned suite (all 10581 stable tests; a stable test that failed once under machine load was re-run alone) with the change applied, its demonstration fails with the change and passes without it, and the named check was run against a scratch worktree holding the change (`tools/eval_seed.sh`, `tools/seed_suite.py`; records in each `meta.json`).  The pinned suite skips the TLS and HTTP/2 tests (no pyOpenSSL / `priority` in /venv): the authors of the C17 and C29 changes additionally ran Twisted's `test_tls.py` under the system Python with pyOpenSSL and `test_http2.py` with a stand-in `priority`, as their `meta.json` says.\n")
out.append("| seeded change | summary | needs | check verdict (signatures) |\n|---|---|---|---|")
for d in sorted(glob.glob(os.path.join(ROOT, "seeded", "*"))):
    mp = os.path.join(d, "meta.json")
    if not os.path.exists(mp):
        continue
    m = json.load(open(mp))
    c = m["check"]
    verdict = ("**caught** by `./check %s`" % m["property"] if c["detected"] else "**missed**") + (": " + "; ".join("`%s`" % s for s in c["signatures"][:3]) if c["signatures"] else "")
    if m.get("resolution"):
        verdict += " — " + m["resolution"]
    esc = lambda t: str(t or "").replace("|", "\\|").replace("\n", " ")
    out.append("| %s | %s | %s | %s |" % (os.path.basename(d), esc(m.get("summary"))[:260], esc(m.get("needs"))[:260], verdict))
out.append("\n### 5.6 Measured coverage of the last committed quick run (from `evidence/*.json`)\n")
out.append("| id | level | evaluations | states | transitions | distinct non-trivial | outcomes | exhaustive | wall s |\n|---|---|---|---|---|---|---|---|---|")
for fn in sorted(glob.glob(os.path.join(ROOT, "evidence", "C*.json"))):
    e = json.load(open(fn)); c = e["coverage"]
    out.append("| %s | %s | %s | %s | %s | %s | %s | %s | %s |" % (e["property_id"], e["level"], c.get("evaluations"), c.get("states", ""), c.get("transitions", ""),
               c.get("distinct_nontrivial"), c.get("distinct_outcomes"), c.get("exhaustive"), e["wall_s"]))
text = "\n".join(out) + "\n"
p = os.path.join(ROOT, "DESIGN.md")
s = open(p).read()
B, E = "<!-- BEGIN GENERATED -->\n", "<!-- END GENERATED -->\n"
if B in s:
    s = s[:s.index(B) + len(B)] + text + s[s.index(E):]
    open(p, "w").write(s)
    print("DESIGN.md section 5 regenerated: %d fixed, %d known, %d seeded" % (len(k["fixed"]), len(findings), len(glob.glob(os.path.join(ROOT, "seeded", "*", "meta.json")))))
else:
    print(text[:2000])
