#!/venv/bin/python
"""tools/seed_suite.py <seed dir>... : for each seeded change, run the repository's whole pinned
suite (baseline flags) in a scratch worktree with the change applied, and report which tests of
BASELINE.json's stable_pass do not pass.  Writes <seed dir>/suite_result.json.  Runs up to
$SEED_PAR (default 4) suites at once."""
import json, os, subprocess, sys, concurrent.futures, xml.etree.ElementTree as ET
stable = set(json.load(open("/root/.vp/BASELINE.json"))["stable_pass"])

def one(d):
    name = os.path.basename(d.rstrip("/"))
    wt = "/tmp/suitewt-" + name
    subprocess.run(["git", "-C", "/repo", "worktree", "remove", "--force", wt], capture_output=True)
    subprocess.run(["rm", "-rf", wt]); subprocess.run(["git", "-C", "/repo", "worktree", "prune"], capture_output=True)
    r = subprocess.run(["git", "-C", "/repo", "worktree", "add", "--detach", wt, "HEAD"], capture_output=True, text=True)
    if r.returncode:
        return name, {"error": "worktree: " + r.stderr[-200:]}
    try:
        patch = os.path.join(d, "patch.diff")
        r = subprocess.run(["git", "apply", patch], cwd=wt, capture_output=True, text=True)
        if r.returncode:
            r = subprocess.run(["git", "apply", "--3way", patch], cwd=wt, capture_output=True, text=True)
            if r.returncode:
                return name, {"error": "patch does not apply: " + r.stderr[-300:]}
        xml = "/dev/shm/suite-%s.xml" % name
        env = dict(os.environ, PYTHONPATH=wt + "/src", PYTHONDONTWRITEBYTECODE="1")
        env.pop("TWISTED_VERIF", None)
        p = subprocess.run(["/venv/bin/python", "-m", "pytest", "-q", "-p", "no:cacheprovider", "--timeout=900",
                            "--continue-on-collection-errors", "--junitxml=" + xml], cwd=wt, env=env, capture_output=True, text=True)
        tail = p.stdout.strip().splitlines()[-1] if p.stdout.strip() else p.stderr[-300:]
        seen, bad = set(), []
        for tc in ET.parse(xml).getroot().iter("testcase"):
            tid = "%s::%s" % (tc.get("classname"), tc.get("name"))
            seen.add(tid)
            if tid in stable and any(ch.tag in ("failure", "error", "skipped") for ch in tc):
                bad.append(tid)
        os.remove(xml)
        # a stable test that fails once under machine load is re-run alone (up to 3 times)
        flaky = []
        for tid in list(bad):
            cls, _, meth = tid.partition("::")
            parts = cls.split(".")
            # src.twisted.x.test.test_y.Class -> src/twisted/x/test/test_y.py::Class::meth
            for cut in range(len(parts), 0, -1):
                path = os.path.join(wt, *parts[:cut]) + ".py"
                if os.path.exists(path):
                    node = "/".join(parts[:cut]) + ".py" + "".join("::" + c for c in parts[cut:]) + "::" + meth
                    break
            else:
                continue
            for attempt in range(3):
                r = subprocess.run(["/venv/bin/python", "-m", "pytest", "-q", "-p", "no:cacheprovider", "--timeout=900", node],
                                   cwd=wt, env=env, capture_output=True, text=True)
                if r.returncode == 0:
                    bad.remove(tid)
                    flaky.append(tid)
                    break
        res = {"summary": tail, "stable_seen": len(seen & stable), "stable_total": len(stable),
               "stable_not_passing": sorted(bad), "passed_when_rerun_alone": flaky, "stable_missing": len(stable - seen),
               "repo_head": subprocess.run(["git", "-C", "/repo", "rev-parse", "--short", "HEAD"], capture_output=True, text=True).stdout.strip()}
        json.dump(res, open(os.path.join(d, "suite_result.json"), "w"), indent=1)
        return name, res
    finally:
        subprocess.run(["git", "-C", "/repo", "worktree", "remove", "--force", wt], capture_output=True)

with concurrent.futures.ThreadPoolExecutor(int(os.environ.get("SEED_PAR", "4"))) as ex:
    for name, res in ex.map(one, sys.argv[1:]):
        if "error" in res:
            print(name, "ERROR", res["error"], flush=True)
        else:
            print(name, res["summary"], "| stable not passing:", len(res["stable_not_passing"]), res["stable_not_passing"][:4], "missing:", res["stable_missing"], flush=True)
