#!/bin/bash
# tools/eval_seed.sh /tmp/seeded-out/C03-a [extra check args]
# Apply a seeded change in a scratch worktree, run its demo with and without it, run the property's check against it.
d="$1"; shift
name=$(basename "$d"); pid=${name%%-*}
wt=/tmp/evalwt-$name
git -C /repo worktree remove --force $wt >/dev/null 2>&1
git -C /repo worktree add --detach $wt HEAD >/dev/null 2>&1 || { echo "worktree failed"; exit 2; }
cd $wt
demo=$(ls $d/demo_test.py $d/demo*.py 2>/dev/null | head -1)
run_demo() { (cd $wt && PYTHONPATH=$wt/src timeout 600 /venv/bin/python -m pytest -q -p no:cacheprovider "$demo" 2>&1 | tail -1); }
echo "[$name] demo clean:   $(run_demo)"
if ! git apply "$d/patch.diff" 2>/tmp/apply-$name.err; then
  if ! git apply --3way "$d/patch.diff" 2>>/tmp/apply-$name.err; then echo "[$name] PATCH DOES NOT APPLY: $(head -2 /tmp/apply-$name.err | tr '\n' ' ')"; git -C /repo worktree remove --force $wt; exit 3; fi
fi
echo "[$name] demo patched: $(run_demo)"
cd /verif
out=$(VERIF_REPO_SRC=$wt/src VERIF_JOBS=${VERIF_JOBS:-8} timeout 1800 ./check $pid "$@" 2>&1)
echo "$out" | grep -E "signature:|-> " | head -6 | sed "s/^/[$name] /"
git -C /repo worktree remove --force $wt >/dev/null 2>&1
