#!/bin/bash
# tools/eval_seed.sh /tmp/seeded-out/C03-a [tier]
# Apply a seeded change in a scratch worktree (outside /repo and /verif), run its demo with and
# without it, run the property's check against it; writes <dir>/eval_result.json.
d="$1"; tier=${2:-quick}
name=$(basename "$d"); pid=${name%%-*}
wt=/tmp/evalwt-$name
git -C /repo worktree remove --force $wt >/dev/null 2>&1
rm -rf $wt; git -C /repo worktree prune
git -C /repo worktree add --detach $wt HEAD >/dev/null 2>&1 || { echo "worktree failed"; exit 2; }
cd $wt
demo=$(ls $d/demo_test.py $d/demo*.py 2>/dev/null | head -1)
run_demo() { (cd $wt && PYTHONPATH=$wt/src timeout 600 /venv/bin/python -m pytest -q -p no:cacheprovider "$demo" 2>&1 | tail -1); }
clean=$(run_demo)
echo "[$name] demo clean:   $clean"
if ! git apply "$d/patch.diff" 2>/tmp/apply-$name.err; then
  if ! git apply --3way "$d/patch.diff" 2>>/tmp/apply-$name.err; then echo "[$name] PATCH DOES NOT APPLY: $(head -2 /tmp/apply-$name.err | tr '\n' ' ')"; git -C /repo worktree remove --force $wt; exit 3; fi
fi
patched=$(run_demo)
echo "[$name] demo patched: $patched"
cd /verif
out=$(VERIF_REPO_SRC=$wt/src VERIF_JOBS=${VERIF_JOBS:-8} timeout 2400 ./check $pid --tier $tier 2>&1); rc=$?
echo "$out" | grep -E "signature:|-> " | head -6 | sed "s/^/[$name] /"
git -C /repo worktree remove --force $wt >/dev/null 2>&1
echo "$out" | grep -E "signature:| -> " | head -200 > /tmp/evalout-$name.txt
CLEAN="$clean" PATCHED="$patched" RC=$rc OUTF=/tmp/evalout-$name.txt TIER=$tier /venv/bin/python - "$d" <<'P'
import json, os, sys, subprocess
d = sys.argv[1]; out = open(os.environ["OUTF"]).read()
sigs = [l.split("signature:", 1)[1].strip() for l in out.splitlines() if "signature:" in l]
json.dump({"demo_on_clean_tree": os.environ["CLEAN"], "demo_with_change": os.environ["PATCHED"],
           "check_cmd": "VERIF_REPO_SRC=<scratch worktree>/src ./check %s --tier %s" % (os.path.basename(d).split("-")[0], os.environ["TIER"]),
           "check_exit": int(os.environ["RC"]), "check_signatures": sigs,
           "check_summary": [l for l in out.splitlines() if " -> " in l][-1:],
           "repo_head": subprocess.run(["git", "-C", "/repo", "rev-parse", "--short", "HEAD"], capture_output=True, text=True).stdout.strip()},
          open(os.path.join(d, "eval_result.json"), "w"), indent=1)
P
