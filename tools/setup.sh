#!/bin/bash
# Offline setup: nothing to build (pure Python on /venv, Twisted is imported from /repo/src).
cd "$(dirname "$0")/.." || exit 1
mkdir -p evidence replays
/venv/bin/python -c "import twisted, sys; sys.path.insert(0,'/verif'); import mc.choice, mc.bfs, mc.runner; print('setup ok', twisted.__version__)"
