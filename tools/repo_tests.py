#!/venv/bin/python
"""tools/repo_tests.py [paths...] : run the repository's tests (baseline flags) on the given paths
(default: whole suite) and list every test of BASELINE.json's stable_pass that did not pass."""
import json, os, subprocess, sys, tempfile, xml.etree.ElementTree as ET
base = json.load(open("/root/.vp/BASELINE.json"))
stable = set(base["stable_pass"])
out = tempfile.mktemp(suffix=".xml", dir="/dev/shm")
paths = sys.argv[1:]
env = dict(os.environ)
env.pop("TWISTED_VERIF", None)
cmd = ["/venv/bin/python", "-m", "pytest", "-ra", "-q", "-p", "no:cacheprovider", "--timeout=900",
       "--continue-on-collection-errors", "--junitxml=" + out] + paths
p = subprocess.run(cmd, cwd="/repo", env=env, capture_output=True, text=True)
print(p.stdout.strip().splitlines()[-1] if p.stdout.strip() else p.stderr[-500:])
seen, bad = set(), []
for tc in ET.parse(out).getroot().iter("testcase"):
    tid = "%s::%s" % (tc.get("classname"), tc.get("name"))
    seen.add(tid)
    failed = any(ch.tag in ("failure", "error", "skipped") for ch in tc)
    if failed and tid in stable:
        bad.append(tid)
os.remove(out)
missing = [] if paths else sorted(stable - seen)
print("stable tests seen: %d of %d; stable tests NOT passing: %d; missing: %d" % (len(seen & stable), len(stable), len(bad), len(missing)))
for t in bad[:40]:
    print("  FAIL", t)
for t in missing[:20]:
    print("  MISSING", t)
sys.exit(1 if bad or missing else 0)
