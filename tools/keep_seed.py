#!/venv/bin/python
"""tools/keep_seed.py <seed dir>... : copy a confirmed seeded change into /verif/seeded/<name>/ with a
meta.json that records the author's description, what it needs to manifest and what was run."""
import json, os, shutil, sys
for d in sys.argv[1:]:
    d = d.rstrip("/"); name = os.path.basename(d)
    ev = json.load(open(os.path.join(d, "eval_result.json")))
    su = json.load(open(os.path.join(d, "suite_result.json"))) if os.path.exists(os.path.join(d, "suite_result.json")) else None
    try:
        am = json.load(open(os.path.join(d, "meta.json")))
    except Exception as e:
        am = {"note": "author meta.json unreadable: %s" % e}
    dst = os.path.join("/verif/seeded", name)
    os.makedirs(dst, exist_ok=True)
    shutil.copy(os.path.join(d, "patch.diff"), dst)
    for f in os.listdir(d):
        if f.startswith("demo") or f.endswith(".py"):
            shutil.copy(os.path.join(d, f), dst)
    meta = {"property": name.split("-")[0], "summary": am.get("summary"), "needs": am.get("needs"),
            "files": am.get("files"), "author": "independent sub-agent given only the property text and its own worktree",
            "author_tests_run": am.get("tests_run"), "demo": am.get("demo"),
            "confirmed": {"demo_on_clean_tree": ev["demo_on_clean_tree"], "demo_with_change": ev["demo_with_change"],
                          "existing_suite_with_change": su and {k: su[k] for k in ("summary", "stable_seen", "stable_total", "stable_not_passing", "stable_missing", "repo_head")}},
            "check": {"cmd": ev["check_cmd"], "exit": ev["check_exit"], "signatures": ev["check_signatures"], "summary": ev["check_summary"],
                      "detected": ev["check_exit"] == 1, "repo_head": ev["repo_head"]}}
    json.dump(meta, open(os.path.join(dst, "meta.json"), "w"), indent=1)
    print(name, "detected" if meta["check"]["detected"] else "MISSED", "suite:", su and (len(su["stable_not_passing"]), su["stable_missing"]))
