#!/bin/bash
# tools/sweep.sh [tier] : run every check listed in tools/ready.txt once; one summary line each
cd "$(dirname "$0")/.."; tier=${1:-quick}
for id in $(cat tools/ready.txt); do
  s=$(date +%s); out=$(timeout 3600 ./check $id --tier $tier 2>&1); rc=$?
  echo "$id rc=$rc $(( $(date +%s) - s ))s known=$(echo "$out" | grep -c '^KNOWN-FINDING') $(echo "$out" | grep -E ' -> ' | tail -1 | sed 's/.*eval=/eval=/')"
  echo "$out" | grep -E "^VIOLATION|HARNESS ERROR|signature:" | head -5
done
