#!/venv/bin/python
"""tools/fixed.py <ID> <commit> <signature> : move a recorded finding (known_findings.json, or a
staging file known/<ID>.json) to the 'fixed' list."""
import json, sys, os
ROOT = os.path.dirname(os.path.dirname(os.path.abspath(__file__)))
pid, commit, sig = sys.argv[1:4]
p = os.path.join(ROOT, "known_findings.json")
k = json.load(open(p))
hit = [f for f in k["findings"] if f["property"] == pid and f["signature"] == sig]
k["findings"] = [f for f in k["findings"] if not (f["property"] == pid and f["signature"] == sig)]
kp = os.path.join(ROOT, "known", pid + ".json")
if os.path.exists(kp):
    d = json.load(open(kp))
    hit += [f for f in d["findings"] if f["signature"] == sig]
    d["findings"] = [f for f in d["findings"] if f["signature"] != sig]
    if d["findings"]:
        json.dump(d, open(kp, "w"), indent=1)
    else:
        os.remove(kp)
assert hit, "no such signature"
k["fixed"].append("fixed: property=%s %s %s [%s]" % (pid, commit, hit[0]["what"], sig))
json.dump(k, open(p, "w"), indent=1)
print("ok")
