#!/venv/bin/python
"""tools/fixed.py <ID> <commit> <signature> : move a staged finding to the 'fixed' list."""
import json, sys, os
ROOT = os.path.dirname(os.path.dirname(os.path.abspath(__file__)))
pid, commit, sig = sys.argv[1:4]
kp = os.path.join(ROOT, "known", pid + ".json")
d = json.load(open(kp))
hit = [f for f in d["findings"] if f["signature"] == sig]
assert hit, "no such signature"
d["findings"] = [f for f in d["findings"] if f["signature"] != sig]
if d["findings"]:
    json.dump(d, open(kp, "w"), indent=1)
else:
    os.remove(kp)
p = os.path.join(ROOT, "known_findings.json")
k = json.load(open(p))
k["fixed"].append("fixed: property=%s %s %s [%s]" % (pid, commit, hit[0]["what"], sig))
json.dump(k, open(p, "w"), indent=1)
print("ok")
