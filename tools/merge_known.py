#!/venv/bin/python
"""Merge the per-property staging files known/<ID>.json into known_findings.json (the one committed
known-findings file) and remove them."""
import glob, json, os
ROOT = os.path.dirname(os.path.dirname(os.path.abspath(__file__)))
p = os.path.join(ROOT, "known_findings.json")
k = json.load(open(p))
have = {(f["property"], f["signature"]) for f in k["findings"]}
for fn in sorted(glob.glob(os.path.join(ROOT, "known", "*.json"))):
    for f in json.load(open(fn))["findings"]:
        if (f["property"], f["signature"]) not in have:
            k["findings"].append(f)
            have.add((f["property"], f["signature"]))
    os.remove(fn)
k["findings"].sort(key=lambda f: (f["property"], f["signature"]))
json.dump(k, open(p, "w"), indent=1)
print("findings:", len(k["findings"]), "fixed:", len(k["fixed"]))
